"""C15 -- weight, fullfactorial (_fullfact), replace, keep_only / dm[name, ...] and z do what they name."""
import itertools
import math
import warnings
from collections import OrderedDict
from fractions import Fraction

import coqlit as L
import pyobs

KINDS = ['KMixed', 'KFloat', 'KInt']
NAN = float('nan')
INF = float('inf')
# names chosen so that insertion order, alphabetical order and "interesting" order all differ
NAMES = ['m', 'b', 'zz', 'a', 'k', 'Z', '_u', 'c9']


def coltype(kind):
    from datamatrix import MixedColumn, FloatColumn, IntColumn
    return {'KMixed': MixedColumn, 'KFloat': FloatColumn, 'KInt': IntColumn}[kind]


def kind_of(col):
    from datamatrix import MixedColumn, FloatColumn, IntColumn
    return {MixedColumn: 'KMixed', FloatColumn: 'KFloat', IntColumn: 'KInt'}.get(type(col), 'K?')


# Behaviour of the UNCHANGED tree that a strict reading of the property text does not cover (reported to the
# coordinator; decided: stays pending / outside the quantifier).  While False, the cases below are kept out of the
# default stream / are not judged by the property oracle:
#   * ops.replace(MixedColumn, {nan: v}) never matches a NaN cell (it does in Float columns);
#   * ops.z(MixedColumn holding -inf) is all NaN (`_nanorinf` drops +inf but not -inf).
# (Repaired in /repo and now in the default stream: weight with a SeriesColumn in the table; a key that is no
#  number on a numeric column.)
INCLUDE_PENDING_FINDINGS = False

U53 = 2.0 ** -53            # unit roundoff of binary64
Z_TOL_FLOOR = 1e-9


def _gamma(k):
    return k * U53 / (1 - k * U53)


def z_tolerance(nums, ncells):
    """Rigorous a-priori bounds for |mean(z)| and |std(z) - 1| of the two-pass z transform in binary64.

    nums: the finite numeric cells as floats (n >= 2, not all equal); ncells >= n: number of cells that enter the
    floating-point sums.  With u = 2^-53, g_k = k*u/(1-k*u), M = max|x_i|, s = exact sample standard deviation,
    kappa = M/s (the conditioning of the problem: how large the values are relative to their spread):
      * the computed mean m^ = fl(fl(sum x_i)/n) has |m^ - mean| <= g_N * M for ANY summation order (recursive,
        pairwise, compensated), N = ncells;
      * s^ (sum of fl((x_i - m^)^2), /(n-1), sqrt; <= N+6 roundings under the root, pow() within 1 ulp) satisfies
        s^^2 = (s^2 + n*dm^2/(n-1)) * (1+T), |T| <= g_(N+6), hence H := n*(g_N*kappa)^2/(n-1) bounds the relative
        excess of the variance caused by the error dm of the mean -- second order in kappa: this is what the
        two-pass formula buys, the single-pass formula sum(x^2) - sum(x)^2/n has a FIRST-order term u*kappa^2;
      * z_i = fl(fl(x_i - m^)/s^) = (x_i - m^)(1+p_i)/s^, |p_i| <= g_2.
    From these (Cauchy-Schwarz for the mean; the standard deviation is a seminorm, shift invariant):
      |mean(z)|    <= (g_N*kappa + g_2*(1+H/2)) * (1+g_(N+6))
      |std(z) - 1| <= g_(N+6) + (H + g_(N+6) + H*g_(N+6))/2 + g_2*(1+H/2)*(1+g_(N+6))
    8u is added for the harness' own measurement (fsum based) and a factor 1+2^-40 for evaluating the bound in
    floating point.  The first bound is unavoidable for any implementation returning doubles (the mean itself
    is only known to u*M).  Assumes no overflow / underflow (|x| < 2^60, spreads > 2^-60)."""
    n = len(nums)
    fx = [Fraction(x) for x in nums]
    mean = sum(fx) / n
    var = sum((x - mean) ** 2 for x in fx) / (n - 1)
    sigma = math.sqrt(var)
    kappa = max(abs(x) for x in nums) / sigma
    g = _gamma(ncells + 6)
    gk = _gamma(ncells) * kappa
    h = n * gk * gk / (n - 1)
    slack = 1 + 2.0 ** -40
    b_mean = ((gk + _gamma(2) * (1 + h / 2)) * (1 + g) + 8 * U53) * slack
    b_std = (g + (h + g + h * g) / 2 + _gamma(2) * (1 + h / 2) * (1 + g) + 8 * U53) * slack
    return kappa, max(Z_TOL_FLOOR, b_mean), max(Z_TOL_FLOOR, b_std)


class Foreign(pyobs.Obj):
    """an object that is neither a column nor a name"""


# ---------------------------------------------------------------- tables
def build(tab):
    """tab = {'n': rows, 'cols': [[name, kind, [enc cells]] ...] (insertion order), 'rowop': None | [indices]}"""
    from datamatrix import DataMatrix
    dm = DataMatrix(length=tab['n'])
    for name, kind, cells in tab['cols']:
        dm[name] = coltype(kind)
        if tab['n']:
            dm[name] = [pyobs.dec(c) for c in cells]
    if tab.get('rowop') is not None:
        dm = dm[list(tab['rowop'])]          # reorders / selects rows: row ids are no longer 0..n-1 in order
    for name, cells in tab.get('post') or []:
        dm[name] = [pyobs.dec(c) for c in cells]      # new values for the rows of a table with repeated row ids
    if tab.get('hist'):
        dm = apply_hist(dm, tab['hist'])
    return dm


def apply_hist(dm, hist):
    """The HISTORY of an argument table (public API only): the operation under test is applied to the state these
    steps leave behind; what it has to return is computed from that state's cells as read position by position
    (dump).  Steps:
      ['sort', col]                 dm = ops.sort(dm, by=dm[col])
      ['shuffle', seed]             dm = ops.shuffle(dm)   (the random module is seeded for the call and restored)
      ['index', [i, ...]]           dm = dm[[i, ...]]      (distinct positions: a permutation, a partial one, a selection)
      ['slice', a, b]               dm = dm[a:b]
      ['length', m, [[col, cells]]] dm.length = m; the cells of added rows are then written one by one, by position
      ['delrow', i]                 del dm[i]
      ['concat', tab]               dm = dm << build(tab)
      ['merge', how, [i..], [j..]]  dm = dm[[i..]] | / & / ^ dm[[j..]]
      ['addcol', col, kind, cells]  a column created and filled at this point of the history
      ['read', how, ...]            the table is READ (result discarded; an exception is swallowed -- reading is judged by
                                    other properties): 'columns' / 'column_names' / 'str' / 'rows' (row iteration) /
                                    'len', or an earlier CALL of one of the operations under test on this very table
                                    object: ['read', 'weight', col], ['read', 'z', col], ['read', 'replace', col],
                                    ['read', 'keep', col], ['read', 'getitem', col], ['read', 'ff']
      ['addtype', col, kind]        dm[col] = MixedColumn / FloatColumn / IntColumn: a column created BY TYPE and never
                                    assigned to (it holds the default cells of its type)
      ['addtuple', col, kind]       dm[col] = (FloatColumn, {}): created by a (type, keyword dict) pair, the form
                                    SeriesColumn(depth=..) expands to
      ['alias', new, old]           dm[new] = dm[old]: an existing column inserted under a second name"""
    import random
    from datamatrix import operations as ops
    for st in hist:
        k = st[0]
        if k == 'read':
            try:
                with warnings.catch_warnings():
                    warnings.simplefilter('ignore')
                    read_table(dm, st[1:])
            except Exception:           # noqa: BLE001
                pass
            continue
        if k == 'addtype':
            dm[st[1]] = coltype(st[2])
            continue
        if k == 'addtuple':
            dm[st[1]] = (coltype(st[2]), {})
            continue
        if k == 'alias':
            dm[st[1]] = dm[st[2]]
            continue
        if k == 'addseries':                # ['addseries', col, depth]: dm[col] = SeriesColumn(depth=depth), never assigned to
            from datamatrix import SeriesColumn
            dm[st[1]] = SeriesColumn(depth=st[2])
            continue
        if k == 'sort':
            dm = ops.sort(dm, by=dm[st[1]])
        elif k == 'shuffle':
            state = random.getstate()
            random.seed(st[1])
            try:
                dm = ops.shuffle(dm)
            finally:
                random.setstate(state)
        elif k == 'index':
            dm = dm[list(st[1])]
        elif k == 'slice':
            dm = dm[st[1]:st[2]]
        elif k == 'length':
            old = len(dm)
            dm.length = st[1]
            for name, cells in st[2]:
                for j, c in enumerate(cells):
                    dm[name][old + j] = pyobs.dec(c)
        elif k == 'delrow':
            del dm[st[1]]
        elif k == 'concat':
            dm = dm << build(st[1])
        elif k == 'merge':
            a, b = dm[list(st[2])], dm[list(st[3])]
            dm = (a | b) if st[1] == 'or' else (a & b) if st[1] == 'and' else (a ^ b)
        elif k == 'addcol':
            dm[st[1]] = coltype(st[2])
            if len(dm):
                dm[st[1]] = [pyobs.dec(c) for c in st[3]]
        else:
            raise AssertionError(st)
    return dm


def read_table(dm, how):
    from datamatrix import operations as ops
    h = how[0]
    if h == 'columns':
        dm.columns
    elif h == 'column_names':
        dm.column_names
    elif h == 'str':
        str(dm)
    elif h == 'rows':
        for row in dm:
            list(row)
    elif h == 'len':
        len(dm)
    elif h == 'weight':
        ops.weight(dm[how[1]])
    elif h == 'z':
        ops.z(dm[how[1]])
    elif h == 'replace':
        ops.replace(dm[how[1]], {0: 1})
    elif h == 'keep':
        ops.keep_only(dm, dm[how[1]])
    elif h == 'getitem':
        dm[how[1],]
    elif h == 'ff':
        ops.fullfactorial(dm)
    else:
        raise AssertionError(how)


def hist_len(tab):
    """length of the table after its history, from the steps alone; None when a step does not fit the state it meets
    (used to keep shrunk inputs well-formed: a candidate whose history is ill-formed is no input)"""
    n = len(tab['rowop']) if tab.get('rowop') is not None else tab['n']
    names = [c[0] for c in tab['cols']]
    for st in tab.get('hist') or []:
        k = st[0]
        if k == 'sort':
            if st[1] not in names:
                return None
        elif k == 'shuffle':
            pass
        elif k == 'index':
            if len(set(st[1])) != len(st[1]) or any(not 0 <= i < n for i in st[1]):
                return None
            n = len(st[1])
        elif k == 'slice':
            if not 0 <= st[1] <= st[2] <= n:
                return None
            n = st[2] - st[1]
        elif k == 'length':
            if any(nm not in names or len(cs) != max(0, st[1] - n) for nm, cs in st[2]):
                return None
            n = st[1]
        elif k == 'delrow':
            if not 0 <= st[1] < n:
                return None
            n -= 1
        elif k == 'concat':
            if st[1].get('hist') or st[1].get('rowop') is not None or any(c[0] not in names for c in st[1]['cols']):
                return None
            n += st[1]['n']
        elif k == 'merge':
            for ix in (st[2], st[3]):
                if len(set(ix)) != len(ix) or any(not 0 <= i < n for i in ix):
                    return None
            a, b = set(st[2]), set(st[3])
            n = len(a | b if st[1] == 'or' else a & b if st[1] == 'and' else a ^ b)
        elif k == 'addcol':
            if st[1] in names or len(st[3]) != n:
                return None
            names.append(st[1])
        elif k == 'read':
            if len(st) > 2 and st[2] not in names:
                return None
        elif k in ('addtype', 'addtuple', 'addseries'):
            if st[1] in names:
                return None
            names.append(st[1])
        elif k == 'alias':
            if st[1] in names or st[2] not in names:
                return None
            names.append(st[1])
        else:
            return None
    return n


def columns_of(dm):
    """The (name, column) pairs a table HOLDS (its storage `_cols`), in the order `dm.columns` documents: by name when
    the table is `sorted` (the default), else as inserted.  The harness reads tables through this and not through the
    `columns` / `column_names` properties, which the operations under test read themselves: a stale answer of those
    properties must show as a wrong RESULT, it must not blind the reference as well."""
    items = list(dm._cols.items())
    if getattr(dm, '_sorted', True):
        items.sort(key=lambda nc: nc[0])
    return items


def dump(dm):
    """-> (coq literal of type tbl, python structure, problem or None); columns in dm.columns order"""
    cols = []
    prob = None
    lits = []
    for name, col in columns_of(dm):
        cells = list(col)
        cl = []
        for x in cells:
            v = pyobs.val(x)
            if v is None:
                prob = 'cell of column %s is not a plain int/float/str/None: %r' % (name, type(x).__name__)
                v = 'VNone'
            cl.append(v)
        if len(cells) != len(dm):
            prob = 'column %s has %d cells in a DataMatrix of length %d' % (name, len(cells), len(dm))
        k = kind_of(col)
        if k == 'K?':
            prob = 'column %s has type %s' % (name, type(col).__name__)
            k = 'KMixed'
        cols.append([name, k, [pyobs.jsonable(x) for x in cells]])
        lits.append('(%s, %s, %s)' % (L.string(name), k, L.lst(cl)))
    lit = '{| tlen := %s; tcols := %s |}' % (L.nat(len(dm)), L.lst(lits))
    return lit, {'len': len(dm), 'cols': cols, 'raw_order': list(dm._cols), 'rowid': [int(i) for i in dm._rowid]}, prob


def col_obs(col):
    cl = []
    prob = None
    for x in col:
        v = pyobs.val(x)
        if v is None:
            prob = 'result cell is not a plain int/float/str/None: %r' % type(x).__name__
            v = 'VNone'
        cl.append(v)
    k = kind_of(col)
    if k == 'K?':
        prob = 'result column has type %s' % type(col).__name__
        k = 'KMixed'
    return '(OCol %s %s)' % (k, L.lst(cl)), {'kind': k, 'cells': [pyobs.jsonable(x) for x in col]}, prob


def _show(v):
    from datamatrix._datamatrix._basecolumn import BaseColumn
    if isinstance(v, BaseColumn):
        return 'column@%d' % id(v)
    if isinstance(v, float):
        return v.hex() if v == v else 'nan'
    return '%s:%r' % (type(v).__name__, v)


def arg_snapshot(x):
    """what the caller can see of an argument object it handed over: for a dict / list / tuple the member OBJECTS
    (identity) in their order, and their values; compared before / after every call"""
    if isinstance(x, dict):
        return ['dict'] + [[id(k), _show(k), id(v), _show(v)] for k, v in x.items()]
    if isinstance(x, (list, tuple)):
        return [type(x).__name__] + [[id(e), _show(e)] for e in x]
    return [type(x).__name__, _show(x)]


def arg_changed(op, what, before, x):
    now = arg_snapshot(x)
    if now != before:
        return '%s modified the %s it was given: %r -> %r' % (
            op, what, [e[1::2] if isinstance(e, list) else e for e in before], [e[1::2] if isinstance(e, list) else e for e in now])
    return None


def again(op, r, obs, r2, obs2):
    """a SECOND call with the very same argument objects (the same mapping dict, column, list) must return the same
    thing as the first, in a new object"""
    if obs2 != obs:
        return ('a second %s call with the same argument objects returned something else: first %s, then %s'
                % (op, obs[:400], obs2[:400]))
    if r is not None and r2 is r:
        return 'two %s calls returned the same object' % op
    c1, c2 = getattr(r, '_cols', None), getattr(r2, '_cols', None)
    if isinstance(c1, dict) and isinstance(c2, dict) and (c1 is c2 or {id(c) for c in c1.values()} & {id(c) for c in c2.values()}):
        return 'the results of two %s calls share column objects' % op
    return None


def both(mk, obs, obs2):
    """the Coq verdict on the first call, and on the second one when it observed something else"""
    return mk(obs) if obs2 == obs else '(%s && %s)' % (mk(obs), mk(obs2))


def qlit(fr):
    fr = Fraction(fr)
    return '(Qmake %s %d)' % (L.z(fr.numerator), fr.denominator)


def enc_cells(cells):
    return [pyobs.enc(c) for c in cells]


class C15:
    id = 'C15'
    props_file = 'theories/Props/C15.v'
    kernel_files = ['KOpsMisc.v', 'KCheck.v']
    oracle_vos = ['theories/Run/SC15.vo']
    model_vos = ['theories/Run/RC15.vo']
    oracle_imports = ['From Coq Require Import QArith.', 'From DM Require Import Run.SC15.']
    model_imports = ['From Coq Require Import QArith.', 'From DM Require Import Run.RC15.']
    exhaustive = False
    rule = ('weight: every weight vector in 0..4 for 1-3 rows (exhaustive; 4-5 rows sampled) in Mixed and Int weight columns, '
            'next to payload columns of all three types, plus invalid vectors (negative, non-integral float, str, None, '
            'nan, inf, FloatColumn, all non-numeric) and the empty table, and tables that also hold 1-2 series columns of depth 1-4 '
            '(valid and invalid weights, reordered rows; judged on the Python side); _fullfact: every level vector of 1-3 factors x 0-3 '
            'levels exhaustively, 4 factors / 4 levels sampled (thorough: all); fullfactorial: every shape up to 3 columns x 3 '
            'rows with every placement of ignored cells (exhaustive, 682 designs), 4 columns / 4 rows sampled, ignore values '
            "'', 0, text, None, nan, 2.5, non-Mixed columns and the empty design for the model; replace: random mappings "
            'over the three column types, disjoint (oracle + model) and chained (model only), NaN keys, keys that are no '
            'numbers on numeric columns (unchanged copy expected), malformed values; keep_only / dm[...]: every subset of 1-4 columns by name, by object and mixed, through keep_only(*), '
            'keep_only([..]) and dm[..], with unknown names, foreign columns, aliases and non-column arguments (column objects are '
            'handed to the model as identities, it resolves their names itself); also by object after the name of the column was looked up (col.name, keep_only / dm[...] by object) and the column was then renamed, re-added under a new name or swapped names with another column (judged by the current name); z: Float, '
            'Mixed and Int columns with >= 2 distinct finite values and nan/inf/text/None cells in between: small everyday values, '
            'and values with a large offset and a small spread (1e8+k, ms timestamps ~1.7e12, 123456789.25-style floats, '
            'around +-2^40 and +-2^52, mixed signs, one outlier next to a tight cluster; max|x|/std up to ~1e15), judged '
            'on the Python side with the tolerance max(1e-9, a-priori bound of the two-pass formula for that conditioning); '
            'plus families with a rational standard deviation (centre up to 2^50) compared exactly with the model; the same '
            'measurements in other units: Float / Mixed columns whose values and spreads have magnitude 1e-145 .. 1e145 (1e-19, '
            '1e-18, 1e-30, 1e-100, 1e100 ...) and offsets of 1e8 with a spread of 1e-3, judged with the same bound. Every table is '
            'built with columns inserted in non-alphabetical order and in one of three row orders (as created / permuted '
            '/ selected from a larger table). Argument tables with a HISTORY (all five operations; apply_hist): a fresh table '
            'whose rows are reordered (ops.sort by one of its columns, ops.shuffle, an index list in which only some rows '
            'moved, a merge | & ^ of two selections), then grown or shrunk and grown with dm.length (new cells written by '
            'position, some left at their defaults), concatenated (<<, also with a table lacking a column), rows deleted, '
            'slices taken, a column added late; the operation is judged against the cells of the resulting state as read '
            'position by position (an exception while the history is built is a judged observation). EVERY case calls its '
            'operation TWICE with the very same argument objects (the same mapping dict, weight column, design table, column, '
            'list / tuple of names and columns, list of levels): both calls must observe the same thing (the second observation '
            'is judged by the oracle and the model too when it differs), in separate result objects, and after each call the '
            'argument objects must be unchanged (dict: the same key / value objects in the same order; lists: the same members; '
            'columns still owned by their table); LATE COLUMNS (all five operations, with and without a history before): the table '
            'is READ (dm.columns, dm.column_names, str(dm), row iteration, or an earlier weight / z / replace / keep_only / '
            'dm[...] / fullfactorial call on the same table object), then one to three columns are added WITHOUT a cell '
            'assignment -- by type (dm.x = IntColumn), by a (type, kwargs) pair (what SeriesColumn(depth=..) expands to; real '
            'series columns in the weight-with-series family), as a second name of an existing column (dm.b = dm.a) -- '
            'sometimes read again, and only then handed to the operation: the result must account for them (weight: present '
            'with their type and default / aliased cells; keep_only: kept iff named; fullfactorial: one more factor); the '
            'reference reads the table through its column storage, not through dm.columns; replace then uses the same mapping object on ANOTHER column of the same type '
            'when the table has one (judged in Coq like the first); replace on series columns with a NaN key and NaN samples. '
            'non-trivial = the result differs from the source or an exception is raised; '
            'distinct by (operation, source table, parameters)')
    trusted_base = [
        'Coq 8.16.1 kernel (coqc; vm_compute for evaluating cases; no native_compute)',
        'translator /verif/translate/gen_opsmisc.py (+ py2coq.py): guards, index and repeat-count arithmetic of weight, '
        '_fullfact, fullfactorial, replace (cell test of the MixedColumn branch; float-NaN key test and isnan / == choice of the NumPy branch), '
        'keep_only, the dispatch chain of _colname, BaseColumn.name (comprehension filter, no-name and single-name tests) '
        '/mean/std, z -> Gen/KOpsMisc.v; the loop skeletons around them are pinned (any structural change fails the translation)',
        'hand-written skeletons in Model/OpsMisc.v (loop structure, element-wise reading of np.isnan(array) / array == x, '
        'NumPy stores of replace on numeric columns, list repetition / concatenation, H[:, i] = rng), tied by the correspondence only',
        'object identities of columns (id(obj), the (name, object) list of the owning DataMatrix) as read by harness/c15.py',
        'harness/c15.py (table builder, dumper through the column storage dm._cols in the documented order of dm.columns / iteration, outcome classification), harness/pyobs.py, '
        'Run/SC15.v, Run/RC15.v comparators',
        'modelled, not verified: Python ==, list * int, range, enumerate, dict order, NumPy np.prod / zeros / column assignment '
        '/ isnan / where / fancy assignment, math.sqrt (only "s*s = variance" is assumed of it)',
    ]
    assumptions = [
        'cells are plain int/float/str/None in the normal form of their column type (C05); Int cells and weights are small '
        '(no int64 / float53 overflow)',
        'the ignore value of fullfactorial is itself a normal-form cell value (so that re-storing it does not change it)',
        'z: mean 0 and standard deviation 1 are compared on the Python side (binary64 rounding is not modelled) with the '
        'tolerance max(1e-9, B): B is the a-priori rounding bound of the two-pass formula (mean, then sum of squared '
        'deviations) in binary64 for the conditioning kappa = max|x|/std of the input, u = 2^-53, g_k = k*u/(1-k*u), '
        'N cells, n numeric cells, H = n*(g_N*kappa)^2/(n-1): |mean z| <= (g_N*kappa + g_2*(1+H/2))*(1+g_(N+6)) + 8u and '
        '|std z - 1| <= g_(N+6) + (H + g_(N+6) + H*g_(N+6))/2 + g_2*(1+H/2)*(1+g_(N+6)) + 8u (derivation in '
        'c15.z_tolerance; valid for any summation order, pow() within 1 ulp, no overflow/underflow: |x| < 2^60). The mean '
        'bound u*N*kappa is inherent to doubles (the mean of the input is only known to u*max|x|); the deviation of the '
        'standard deviation is second order in u*kappa for a two-pass formula, whereas a single-pass sum-of-squares formula '
        'loses u*kappa^2 -- that gap is what the large-offset families test. Inputs with tolerance >= 0.5 (unit spread near '
        '2^52) are judged for shape, exceptions and monotonicity only. The theorems are over exact rationals with s*s = '
        'variance as a hypothesis; element-wise column arithmetic is C13',
        'ints in z inputs stay below 2^53 (float(int) exact)',
        'z: magnitudes are kept within 1e-145 .. 1e145 so that no squared deviation under- or overflows (the bound is scale '
        'invariant under that condition); pending finding of the unchanged tree (INCLUDE_PENDING_FINDINGS = False, not '
        'generated): beyond about 1e-160 / 1e155 std is 0 / inf and z returns +-inf / zeros or raises ZeroDivisionError',
        'pending / outside the quantifier (INCLUDE_PENDING_FINDINGS = False): a NaN key on a MixedColumn holding NaN cells '
        '(never matches; not judged by the oracle, the model is still compared) and -inf in a MixedColumn given to z (all '
        'scores NaN; not generated)',
        'replace on numeric columns: a NaN key that is not a Python float (numpy.float32 NaN) is outside the claim '
        '(compared with ==, designates nothing; premise nan_key_ok of C15_replace_numeric_pass)',
        'weight on a table holding SeriesColumns: series cells are outside the Coq cell type (Spec.Nf.kind / val), so these '
        'cases are judged on the Python side only (rows repeated w_i times in order, series type and depth preserved, '
        'TypeError for invalid weights, source unchanged); the column-creation branch of weight is pinned',
        'z of an IntColumn returns a FloatColumn (repaired defect: the scores used to be truncated to integers)',
        'replace on numeric columns: values are numbers (other values are outside the claim; the model still describes the '
        'exceptions NumPy raises for them); keys are arbitrary: a key that is no number (text, None) equals no cell and '
        'yields an unchanged copy',
    ]

    # ------------------------------------------------------------ running
    def _outcome_tbl(self, thunk):
        try:
            with warnings.catch_warnings():
                warnings.simplefilter('ignore')
                r = thunk()
        except Exception as e:          # noqa: BLE001
            return None, '(OExn %s)' % pyobs.exn_name(e), {'raises': pyobs.exn_name(e), 'msg': str(e)[:200]}, None
        from datamatrix import DataMatrix
        if not isinstance(r, DataMatrix):
            return r, '(OExn OtherError)', {'returns': type(r).__name__}, 'result is a %s, not a DataMatrix' % type(r).__name__
        lit, py, prob = dump(r)
        return r, '(OTbl %s)' % lit, py, prob

    def _finish(self, inp, op, src_lit, src_py, dm, observed, pyfail, oracle, model, nontrivial, tags):
        after_lit, after_py, prob = dump(dm)
        if after_lit != src_lit or after_py != src_py:
            pyfail = pyfail or 'the source DataMatrix was modified by %s: %r -> %r' % (op, src_py, after_py)
            oracle = '(%s && unchanged %s %s)' % (oracle, src_lit, after_lit)
        t = inp.get('tab') or {}
        return {
            'input': inp, 'observed': observed, 'pyfail': pyfail, 'oracle': oracle, 'model': model,
            'nontrivial': bool(nontrivial),
            'sig': '%s|%s' % (op, _compact({k: v for k, v in inp.items() if k != 'tags'})),
            'tags': [op] + list(tags) + (['rows:' + ('history' if t.get('hist') else 'asis' if t.get('rowop') is None else 'repeated-ids' if t.get('post') else 'reordered')] if t else [])
            + sorted({'%s-after:%s' % (op, st[0] if st[0] != 'length' else 'grow' if st[2] else 'shrink') for st in t.get('hist') or []}),
        }

    def _source(self, inp, op):
        """-> (source table, None) | (None, judged case): an exception escaping while the argument table is built
        (its history uses the public API on well-formed arguments only) is an observation, not a crash"""
        try:
            with warnings.catch_warnings():
                warnings.simplefilter('ignore')
                return build(inp['tab']), None
        except Exception as e:          # noqa: BLE001
            msg = 'building the argument table of %s raised %s: %s' % (op, pyobs.exn_name(e), str(e)[:200])
            return None, {'input': inp, 'observed': {'source_raises': pyobs.exn_name(e), 'msg': str(e)[:200]}, 'pyfail': msg,
                          'oracle': 'false', 'model': 'true', 'nontrivial': True,
                          'sig': '%s|%s' % (op, _compact({k: v for k, v in inp.items() if k != 'tags'})),
                          'tags': [op, op + ':source-raised']}

    def rerun(self, inp):
        return getattr(self, '_run_' + inp['op'])(inp)

    def _run_weight(self, inp):
        from datamatrix import operations as ops
        dm, bad = self._source(inp, 'weight')
        if bad is not None:
            return bad
        src_lit, src_py, prob = dump(dm)
        w = inp['wname']
        wcol = dm[w]
        r, obs, observed, p2 = self._outcome_tbl(lambda: ops.weight(wcol))
        r2, obs2, _ob2, p3 = self._outcome_tbl(lambda: ops.weight(wcol))          # the same weight column once more
        pyfail = prob or p2 or p3 or again('weight', r, obs, r2, obs2)
        if r is not None and r is dm:
            pyfail = pyfail or 'weight returned its source'
        if dm._cols.get(w) is not wcol or wcol._datamatrix is not dm:
            pyfail = pyfail or 'the weight column no longer belongs to its table after weight'
        oracle = both(lambda o: '(weight_oracle %s %s %s)' % (src_lit, L.string(w), o), obs, obs2)
        model = both(lambda o: '(weight_agrees %s %s %s)' % (src_lit, L.string(w), o), obs, obs2)
        nontriv = not (isinstance(observed, dict) and observed.get('cols') == src_py['cols'])
        tags = ['weight:' + ('error' if 'raises' in observed else 'ok'), 'wkind:' + str(kind_of(dm[w]))]
        return self._finish(inp, 'weight', src_lit, src_py, dm, observed, pyfail, oracle, model, nontriv, tags)

    def _run_weight_series(self, inp):
        """weight on a DataMatrix that also holds SeriesColumns.  Series cells are outside the Coq cell type, so the
        case is judged on the Python side against a direct reference: source row i appears w_i consecutive times, in
        order, in every column; column types and series depths are preserved; TypeError for anything that is not a
        non-negative int; the source is not modified."""
        from datamatrix import DataMatrix, SeriesColumn, operations as ops
        from datamatrix._datamatrix._seriescolumn import _SeriesColumn
        ws = [pyobs.dec(w) for w in inp['weights']]
        n = len(ws)
        dm = DataMatrix(length=n)
        order = inp.get('order') or ['w'] + [nm for nm, _d in inp['series']] + (['p'] if inp.get('payload') else [])
        for nm in order:                      # insertion order is part of the input
            if nm == 'w':
                dm.w = coltype(inp['wkind'])
                dm.w = ws
            elif nm == 'p':
                dm.p = ['r%d' % i for i in range(n)]
            else:
                depth = dict(inp['series'])[nm]
                dm[nm] = SeriesColumn(depth=depth)
                for i in range(n):
                    dm[nm][i] = [i * 10 + j + 0.5 * len(nm) for j in range(depth)]
        if inp.get('rowop') is not None:
            dm = dm[list(inp['rowop'])]
        if inp.get('late'):
            # the table is read, then columns are added by type / SeriesColumn(depth=..) / as a second name (no cell is
            # assigned afterwards)
            dm = apply_hist(dm, inp['late'])

        def snapshot(d):
            out = {'len': len(d), 'names': [nm for nm, _c in columns_of(d)]}
            for nm, c in columns_of(d):
                if isinstance(c, _SeriesColumn):
                    out[nm] = ['series', c.depth, [[float(x).hex() for x in cell] for cell in c]]
                else:
                    out[nm] = [kind_of(c), [pyobs.jsonable(x) for x in c]]
            return out
        before = snapshot(dm)
        src_w = list(dm.w)
        valid = all(type(w) is int and w >= 0 for w in src_w)
        pyfail = None
        wcol = dm.w
        try:
            with warnings.catch_warnings():
                warnings.simplefilter('ignore')
                second = ('ok', snapshot(ops.weight(wcol)))
        except Exception as e:          # noqa: BLE001
            second = ('raises', pyobs.exn_name(e))
        try:
            with warnings.catch_warnings():
                warnings.simplefilter('ignore')
                r = ops.weight(wcol)
            observed = snapshot(r)
            if second != ('ok', observed):
                pyfail = 'two weight calls on the same column: %r, then %r' % (second, observed)
            if not valid:
                pyfail = 'weight accepted the weights %r (TypeError expected)' % (src_w,)
            else:
                rows = [i for i, w in enumerate(src_w) for _c in range(w)]
                expected = {'len': len(rows), 'names': before['names']}
                for nm in before['names']:
                    b = before[nm]
                    expected[nm] = b[:-1] + [[b[-1][i] for i in rows]]
                if r is dm:
                    pyfail = 'weight returned its source'
                elif observed != expected:
                    pyfail = 'weight with series columns: expected %r, found %r' % (expected, observed)
        except Exception as e:          # noqa: BLE001
            observed = {'raises': pyobs.exn_name(e), 'msg': str(e)[:200]}
            if second != ('raises', pyobs.exn_name(e)):
                pyfail = 'two weight calls on the same column: %r, then %r' % (second, observed)
            if valid or pyobs.exn_name(e) != 'TypeError':
                pyfail = ('weight raised %s for the weights %r in a DataMatrix holding series columns%s'
                          % (pyobs.exn_name(e), src_w, '' if valid else ' (TypeError expected)'))
        if snapshot(dm) != before:
            pyfail = pyfail or 'the source DataMatrix was modified by weight: %r -> %r' % (before, snapshot(dm))
        return {'input': inp, 'observed': observed, 'pyfail': pyfail, 'oracle': 'false' if pyfail else 'true', 'model': 'true',
                'nontrivial': True, 'sig': 'weight_series|%s' % _compact(inp),
                'tags': ['weight', 'weight:with-series', 'weight:' + ('ok' if valid else 'error'), 'wkind:' + inp['wkind'],
                         'rows:' + ('asis' if inp.get('rowop') is None else 'reordered')]
                + sorted({'weight-after:%s' % st[0] for st in inp.get('late') or []})}

    def _run_replace_series(self, inp):
        """replace on a SeriesColumn (optionally after its depth was changed: a reduced depth leaves the storage a view):
        every sample equal to a key holds the mapped value, all others are unchanged, the input is not modified.
        Judged on the Python side (series cells are outside the Coq cell type)."""
        import numpy as np
        from datamatrix import DataMatrix, SeriesColumn, operations as ops
        n, d0 = inp['rows'], inp['depth0']
        dm = DataMatrix(length=n)
        dm.s = SeriesColumn(depth=d0)
        for i in range(n):
            dm.s[i] = [float((i + j) % 4) for j in range(d0)]
        for i, j in inp.get('nan_cells', []):          # samples that hold NaN (a NaN key designates exactly them)
            if i < n and j < d0:
                dm.s[i, j] = NAN
        for d in inp.get('depths', []):
            dm.s.depth = d
        if inp.get('slice'):
            dm = dm[:]
        mapping = {float(k): float(v) for k, v in inp['mapping']}          # the key 'nan' is float('nan')
        m_before = arg_snapshot(mapping)
        before = np.array(dm.s._seq, copy=True)
        want = before.copy()
        for k, v in mapping.items():          # keys and values are disjoint: the order of the passes does not matter
            want[np.isnan(before) if k != k else before == k] = v
        pyfail = None
        scol = dm.s
        for call in ('first', 'second'):          # the same column and the SAME mapping object twice
            try:
                with warnings.catch_warnings():
                    warnings.simplefilter('ignore')
                    r = ops.replace(scol, mapping)
                got = np.array(r._seq)
                if call == 'first':
                    observed = {'result': got.tolist()}
                    first = r
                elif r is first or r._seq is first._seq:
                    pyfail = pyfail or 'two replace calls returned the same object / storage'
                if r is scol:
                    pyfail = pyfail or 'replace returned its input column'
                elif got.shape != want.shape or not np.array_equal(got, want, equal_nan=True):
                    pyfail = pyfail or 'replace on a series column (%s call with this mapping object): expected %r, found %r' % (
                        call, want.tolist(), got.tolist())
            except Exception as e:          # noqa: BLE001
                if call == 'first':
                    observed = {'raises': pyobs.exn_name(e), 'msg': str(e)[:200]}
                pyfail = pyfail or 'replace on a series column raised %s: %s' % (pyobs.exn_name(e), e)
            pyfail = pyfail or arg_changed('replace', 'mapping', m_before, mapping)
            if pyfail:
                break
        if not np.array_equal(np.array(dm.s._seq), before, equal_nan=True):
            pyfail = pyfail or 'replace modified its input: %r -> %r' % (before.tolist(), np.array(dm.s._seq).tolist())
        if pyfail is None and 'result' in observed:
            r[0, 0] = 99.0
            if not np.array_equal(np.array(dm.s._seq), before, equal_nan=True):
                pyfail = 'writing to the result of replace changed the input column'
        return {'input': inp, 'observed': observed, 'pyfail': pyfail, 'oracle': 'false' if pyfail else 'true', 'model': 'true',
                'nontrivial': bool((want != before).any()), 'sig': 'replace_series|%s' % _compact(inp),
                'tags': ['replace', 'replace:series', 'depths:%d' % len(inp.get('depths', []))]
                + (['replace:series-nan-key'] if any(k == 'nan' for k, _v in inp['mapping']) else [])}

    def gen_replace_series(self, rng, tier):
        cases = []
        for _ in range(24 if tier == 'quick' else 200):
            d0 = rng.randint(1, 4)
            depths = []
            c = rng.random()
            if c < 0.4 and d0 > 1:
                depths = [rng.randint(1, d0 - 1)]
            elif c < 0.6:
                depths = [d0 + rng.randint(1, 2)]
            elif c < 0.7 and d0 > 1:
                depths = [d0 + 1, rng.randint(1, d0)]
            keys = rng.sample([0.0, 1.0, 2.0, 3.0, 7.0], rng.randint(0, 2))
            rows = rng.randint(1, 4)
            inp = {'op': 'replace_series', 'rows': rows, 'depth0': d0, 'depths': depths,
                   'slice': rng.random() < 0.3, 'mapping': [[k, 10.0 + k] for k in keys]}
            if rng.random() < 0.5:
                # a NaN key (written 'nan': float('nan')) among the others, and samples that hold NaN
                inp['mapping'].insert(rng.randint(0, len(keys)), ['nan', 99.0])
                inp['nan_cells'] = [[rng.randrange(rows), rng.randrange(d0)] for _ in range(rng.randint(0, 3))]
            cases.append(self.rerun(inp))
        return cases

    def _run_fullfact(self, inp):
        from datamatrix import operations as ops
        levels = inp['levels']
        try:
            lv = list(levels)
            lv_before = arg_snapshot(lv)
            with warnings.catch_warnings():
                warnings.simplefilter('ignore')
                h = ops._fullfact(lv)
                h2 = ops._fullfact(lv)          # the same list object once more
            rows = [[int(x) for x in row] for row in h]
            pyfail = arg_changed('_fullfact', 'list of levels', lv_before, lv)
            if h2 is h or h2.shape != h.shape or not (h2 == h).all():
                pyfail = pyfail or 'two _fullfact calls with the same list: %r, then %r' % (h.tolist(), h2.tolist())
            if any(float(x) != int(x) for row in h for x in row):
                pyfail = pyfail or '_fullfact produced non-integral entries'
            if h.shape != (len(rows), len(levels)):
                pyfail = pyfail or '_fullfact shape %r' % (h.shape,)
            hl = L.lst(L.zs(r) for r in rows)
            oracle = '(fullfact_oracle %s %s)' % (L.zs(levels), hl)
            model = '(fullfact_agrees %s %s)' % (L.zs(levels), hl)
            observed = rows if len(rows) <= 30 else {'nrows': len(rows), 'first': rows[:6]}
        except Exception as e:          # noqa: BLE001
            observed = {'raises': pyobs.exn_name(e), 'msg': str(e)[:200]}
            pyfail = '_fullfact raised %s' % pyobs.exn_name(e)
            oracle, model = 'false', 'false'
        return {'input': inp, 'observed': observed, 'pyfail': pyfail, 'oracle': oracle, 'model': model,
                'nontrivial': len(levels) > 1 and all(l > 1 for l in levels), 'sig': 'fullfact|%s' % (levels,),
                'tags': ['fullfact', 'factors:%d' % len(levels)]}

    def _run_ff(self, inp):
        from datamatrix import operations as ops
        dm, bad = self._source(inp, 'ff')
        if bad is not None:
            return bad
        src_lit, src_py, prob = dump(dm)
        ig = pyobs.dec(inp['ignore'])
        if inp.get('default_ignore'):
            thunk = lambda: ops.fullfactorial(dm)          # noqa: E731
        else:
            thunk = lambda: ops.fullfactorial(dm, ignore=ig)          # noqa: E731
        r, obs, observed, p2 = self._outcome_tbl(thunk)
        r2, obs2, _ob2, p3 = self._outcome_tbl(thunk)          # the same design table once more
        pyfail = prob or p2 or p3 or again('fullfactorial', r, obs, r2, obs2)
        if r is not None and r is dm:
            pyfail = pyfail or 'fullfactorial returned its source'
        igl = pyobs.val(ig)
        oracle = both(lambda o: '(ff_oracle %s %s %s)' % (igl, src_lit, o), obs, obs2)
        model = both(lambda o: '(ff_agrees %s %s %s)' % (igl, src_lit, o), obs, obs2)
        nontriv = not (isinstance(observed, dict) and observed.get('cols') == src_py['cols'])
        ncol = len(inp['tab']['cols'])
        tags = ['ff:%dx%d' % (ncol, len(dm)), 'ff:' + ('error' if 'raises' in observed else 'ok'), 'ignore:' + inp['ignore']['t']]
        return self._finish(inp, 'ff', src_lit, src_py, dm, observed, pyfail, oracle, model, nontriv, tags)

    def _mapping(self, inp):
        m = OrderedDict()
        pairs = []
        for k, v in inp['mapping']:
            kk, vv = pyobs.dec(k), pyobs.dec(v)
            if kk in m:                 # dict semantics: keys are unique; keep the generator honest
                continue
            m[kk] = vv
            pairs.append((kk, vv))
        return m, pairs

    def _run_replace(self, inp):
        from datamatrix import operations as ops
        dm, bad = self._source(inp, 'replace')
        if bad is not None:
            return bad
        src_lit, src_py, prob = dump(dm)
        name = inp['col']
        col = dm[name]
        m, pairs = self._mapping(inp)
        m_before = arg_snapshot(m)
        kd = kind_of(col)
        pyfail = prob

        def call(c):
            """ops.replace(c, m) with the ONE mapping object of this case -> (result, Coq observation, observed, problem)"""
            try:
                with warnings.catch_warnings():
                    warnings.simplefilter('ignore')
                    res = ops.replace(c, m)
                o, ob, pr = col_obs(res)
                if res is c or res._seq is c._seq:
                    pr = pr or 'replace returned (storage of) its source column'
                if len(res) != len(c):
                    pr = pr or 'replace changed the length'
            except Exception as e:          # noqa: BLE001
                res, o, pr = None, '(OExn %s)' % pyobs.exn_name(e), None
                ob = {'raises': pyobs.exn_name(e), 'msg': str(e)[:200]}
            return res, o, ob, pr or arg_changed('replace', 'mapping', m_before, m)
        r, obs, observed, p2 = call(col)
        r2, obs2, _ob2, p3 = call(col)          # the same column and the same mapping object once more
        pyfail = pyfail or p2 or p3 or again('replace', r, obs, r2, obs2)
        if r is not None and r2 is not None and r2._seq is r._seq:
            pyfail = pyfail or 'the results of two replace calls share their storage'
        ml = L.lst('(%s, %s)' % (pyobs.pyv(k), pyobs.pyv(v)) for k, v in pairs)
        cl = L.lst(pyobs.val(x) or 'VNone' for x in col)
        oracle = both(lambda o: '(replace_oracle %s %s %s %s)' % (kd, ml, cl, o), obs, obs2)
        model = both(lambda o: '(replace_agrees %s %s %s %s)' % (kd, ml, cl, o), obs, obs2)
        # the mapping object used for ANOTHER column of the same type afterwards (recoding several columns alike)
        sib = [nm for nm, c in columns_of(dm) if c is not col and kind_of(c) == kd]
        sib_tag = []
        if sib and not (kd == 'KMixed' and any(isinstance(k, float) and k != k for k, _v in pairs)):
            col3 = dm[sib[0]]
            _r3, obs3, ob3, p4 = call(col3)
            pyfail = pyfail or p4
            cl3 = L.lst(pyobs.val(x) or 'VNone' for x in col3)
            oracle = '(%s && replace_oracle %s %s %s %s)' % (oracle, kd, ml, cl3, obs3)
            model = '(%s && replace_agrees %s %s %s %s)' % (model, kd, ml, cl3, obs3)
            observed = dict(observed, then_on=sib[0], then=ob3)
            sib_tag = ['replace:mapping-reused-on-a-sibling']
        nontriv = observed.get('cells') != [pyobs.jsonable(x) for x in col]
        tags = ['replace:' + kd, 'replace:' + ('error' if 'raises' in observed else 'ok')] + inp.get('tags', []) + sib_tag
        # pending findings (see INCLUDE_PENDING_FINDINGS): judged by the strict reading only when switched on
        isnan = lambda x: isinstance(x, float) and x != x          # noqa: E731
        nan_keys = [v for k, v in pairs if isnan(k)]
        if kd == 'KMixed' and nan_keys and any(isnan(x) for x in col):
            tags.append('replace:pending-nan-key-in-mixed')
            if not INCLUDE_PENDING_FINDINGS:
                oracle = 'true'          # the L0 reading "NaN == NaN is false in a MixedColumn" is the contested one
            elif 'cells' in observed and any(isnan(x) for x in r):
                pyfail = pyfail or ('a NaN key did not replace the NaN cells of a MixedColumn (it does in a FloatColumn): '
                                    '%r -> %r' % (list(col), list(r)))
        if kd != 'KMixed' and any(not isinstance(k, (int, float)) for k, _v in pairs):
            tags.append('replace:non-number-key')
        return self._finish(inp, 'replace', src_lit, src_py, dm, observed, pyfail, oracle, model, nontriv, tags)

    def _run_keep(self, inp):
        from datamatrix import DataMatrix, operations as ops
        dm, bad = self._source(inp, 'keep')
        if bad is not None:
            return bad
        # history of the source before the selection: name look-ups, renames, re-added names (all public API)
        with warnings.catch_warnings():
            warnings.simplefilter('ignore')
            for st in inp.get('prep') or []:
                if st[0] == 'lookup':
                    dm[st[1]].name
                elif st[0] == 'keep_by_obj':
                    ops.keep_only(dm, dm[st[1]])
                elif st[0] == 'getitem_by_obj':
                    dm[dm[st[1]],]
                elif st[0] == 'rename':
                    dm.rename(st[1], st[2])
                elif st[0] == 'readd':          # the same column under a new name, the old name deleted
                    dm[st[2]] = dm[st[1]]
                    del dm[st[1]]
                elif st[0] == 'swap':           # two columns exchange their names
                    dm.rename(st[1], '__tmp')
                    dm.rename(st[2], st[1])
                    dm.rename('__tmp', st[2])
                else:
                    raise AssertionError(st)
        if inp.get('alias'):
            dm[inp['alias'][0]] = dm[inp['alias'][1]]
        src_lit, src_py, prob = dump(dm)
        other = DataMatrix(length=len(dm))
        args, margs, names, resolvable = [], [], [], True
        for a in inp['args']:
            if 'name' in a:
                args.append(a['name'])
                margs.append('(AName %s)' % L.string(a['name']))
                names.append(a['name'])
            elif 'obj' in a:
                c = dm[a['obj']]
                args.append(c)
                nm = [n for n, cc in columns_of(dm) if cc is c]
                margs.append('(AObj %s)' % L.lst(L.string(n) for n in nm))
                if len(nm) == 1:
                    names.append(nm[0])
                else:
                    resolvable = False
            elif 'foreign' in a:
                other[a['foreign']] = 0
                args.append(other[a['foreign']])
                margs.append('(AObj [%s])' % L.string(a['foreign']))
                names.append(a['foreign'])
            else:
                args.append(7)
                margs.append('AOther')
                resolvable = False
        # the same arguments with column objects as identities: the model resolves them itself (BaseColumn.name
        # over the columns of the object's own DataMatrix); small numbers stand for id(object)
        idmap = {}

        def oid(c):
            return idmap.setdefault(id(c), len(idmap))

        def owner_lit(d):
            return L.lst('(%s, %s)' % (L.string(n), L.nat(oid(cc))) for n, cc in columns_of(d))
        ids_lit = L.lst(L.nat(oid(cc)) for _n, cc in columns_of(dm))
        oargs = []
        for a, obj in zip(inp['args'], args):
            if 'name' in a:
                oargs.append('(OStr %s)' % L.string(a['name']))
            elif 'obj' in a or 'foreign' in a:
                oargs.append('(OColumn %s %s)' % (L.nat(oid(obj)), owner_lit(obj._datamatrix)))
            else:
                oargs.append('OOther')
        own_only = all(('name' in a or 'obj' in a) for a in inp['args'])
        via = inp['via']
        largs, targs = list(args), tuple(args)          # ONE argument list / tuple object for both calls
        a_before = arg_snapshot(largs)
        if via == 'keep_only':
            thunk = lambda: ops.keep_only(dm, *args)
        elif via == 'keep_only_list':
            thunk = lambda: ops.keep_only(dm, largs)
        elif via == 'getitem_tuple':
            thunk = lambda: dm[targs]
        else:
            thunk = lambda: dm[largs]
        r, obs, observed, p2 = self._outcome_tbl(thunk)
        pyfail = prob or p2 or arg_changed('keep_only', 'argument list', a_before, largs)
        r2, obs2, _ob2, p3 = self._outcome_tbl(thunk)          # the same arguments once more
        pyfail = pyfail or p3 or again('keep_only', r, obs, r2, obs2) or arg_changed('keep_only', 'argument list', a_before, largs)
        for a, obj in zip(inp['args'], args):
            if 'obj' in a and (not any(cc is obj for _n, cc in columns_of(dm)) or obj._datamatrix is not dm):
                pyfail = pyfail or 'a column passed to keep_only no longer belongs to its table'
        if r is not None and r is dm:
            pyfail = pyfail or 'keep_only returned its source'
        if r is not None and not p2 and hasattr(r, '_rowid') and [int(i) for i in r._rowid] != src_py['rowid']:
            pyfail = pyfail or 'keep_only changed the rows: %r -> %r' % (src_py['rowid'], [int(i) for i in r._rowid])
        def mk_oracle(o):
            t = '(keep_oracle %s %s %s)' % (src_lit, L.lst(L.string(n) for n in names), o) if resolvable else 'true'
            if resolvable and own_only:
                # by identity: exactly the columns named or passed as objects, whatever the objects are called now
                t = '(%s && keep_id_oracle %s %s %s %s)' % (t, src_lit, ids_lit, L.lst(oargs), o)
            return t

        def mk_model(o):
            return '(keep_agrees %s %s %s %s && keep_obj_agrees %s %s %s %s)' % (
                src_lit, L.boolean(via == 'keep_only_list'), L.lst(margs), o,
                src_lit, L.boolean(via == 'keep_only_list'), L.lst(oargs), o)
        oracle, model = both(mk_oracle, obs, obs2), both(mk_model, obs, obs2)
        if via.startswith('getitem') and not resolvable and any('other' in a for a in inp['args']):
            model = 'true'          # dm[(7, ...)] is row selection, not column selection
        nontriv = not (isinstance(observed, dict) and observed.get('cols') == src_py['cols'])
        tags = ['keep:' + via, 'keep:' + ('error' if 'raises' in observed else 'ok'),
                'keep:' + '+'.join(sorted({list(a)[0] for a in inp['args']}) or ['none'])]
        if inp.get('prep'):
            tags.append('keep:after-' + '+'.join(sorted({st[0] for st in inp['prep']})))
        return self._finish(inp, 'keep', src_lit, src_py, dm, observed, pyfail, oracle, model, nontriv, tags)

    def _run_z(self, inp):
        from datamatrix import operations as ops
        dm, bad = self._source(inp, 'z')
        if bad is not None:
            return bad
        src_lit, src_py, prob = dump(dm)
        name = inp['col']
        col = dm[name]
        kd = kind_of(col)
        pyfail = prob
        src_cells = list(col)
        if len({float(x) for x in src_cells if isinstance(x, (int, float)) and math.isfinite(x)}) < 2:
            return None          # outside the quantifier
        if kd == 'KFloat' and any(isinstance(x, float) and math.isinf(x) for x in src_cells):
            return None          # FloatColumn.mean/std use nanmean/nanstd: an infinite cell makes every score nan (noted)
        cl = L.lst(pyobs.val(x) or 'VNone' for x in src_cells)
        model = 'true'
        kappa, tol_mean, tol_std = z_tolerance(
            [float(x) for x in src_cells if isinstance(x, (int, float)) and math.isfinite(x)], len(src_cells))
        try:
            with warnings.catch_warnings():
                warnings.simplefilter('ignore')
                r = ops.z(col)
                r2 = ops.z(col)          # the same column once more
            obs, observed, p2 = col_obs(r)
            pyfail = pyfail or p2 or again('z', r, obs, r2, col_obs(r2)[0])
            if r is col:
                pyfail = pyfail or 'z returned its source column'
            if not any(cc is col for _n, cc in columns_of(dm)) or col._datamatrix is not dm:
                pyfail = pyfail or 'the column passed to z no longer belongs to its table'
            out = list(r)
            fin = [float(x) for x in out if isinstance(x, (int, float)) and math.isfinite(x)]
            nsrc = [x for x in src_cells if isinstance(x, (int, float)) and math.isfinite(x)]
            if len(fin) != len(nsrc):
                pyfail = pyfail or 'z has %d finite cells for %d finite source cells' % (len(fin), len(nsrc))
            elif len(fin) >= 2:
                mean = math.fsum(fin) / len(fin)
                sd = math.sqrt(math.fsum((x - mean) ** 2 for x in fin) / (len(fin) - 1))
                observed['mean'] = mean
                observed['std'] = sd
                observed['kappa'], observed['tol_mean'], observed['tol_std'] = kappa, tol_mean, tol_std
                if not (abs(mean) <= tol_mean and abs(sd - 1) <= tol_std):
                    pyfail = pyfail or ('z scores have mean %r and standard deviation %r (tolerances %.3g / %.3g for '
                                        'max|x|/std = %.3g)' % (mean, sd, tol_mean, tol_std, kappa))
                # order must be preserved: z is increasing in the source value
                order_src = sorted(range(len(nsrc)), key=lambda i: nsrc[i])
                if any(fin[a] > fin[b] + 1e-12 for a, b in zip(order_src, order_src[1:])):
                    pyfail = pyfail or 'z scores are not monotone in the source values'
            if inp.get('exact_s') is not None:
                s = Fraction(inp['exact_s'][0], inp['exact_s'][1])
                xs = L.lst(qlit(Fraction(x)) for x in nsrc)
                zs = L.lst(qlit(Fraction(x)) for x in fin)
                model = '(z_exact_agrees %s %s %s)' % (xs, qlit(s), zs)
        except Exception as e:          # noqa: BLE001
            obs = '(OExn %s)' % pyobs.exn_name(e)
            observed = {'raises': pyobs.exn_name(e), 'msg': str(e)[:200]}
        oracle = '(z_oracle %s %s %s)' % (kd, cl, obs)
        tags = ['z:' + kd, 'z:' + ('exact' if inp.get('exact_s') is not None else 'tolerance'),
                'z:max|x|/std~1e%d' % int(math.floor(math.log10(kappa) + 0.5)),
                'z:' + ('ill-conditioned(tolerance>=0.5)' if max(tol_mean, tol_std) >= 0.5 else 'judged-numerically')]
        tags += inp.get('tags', [])
        return self._finish(inp, 'z', src_lit, src_py, dm, observed, pyfail, oracle, model, True, tags)

    # ------------------------------------------------------------ generation
    def _table(self, rng, n, cols, reorder=None):
        """cols: [(kind, cells)] in the order they should be *inserted*; names are drawn so that the insertion order
        is not alphabetical; reorder: None (random choice) | 'asis' | 'perm' | 'sel'"""
        names = rng.sample(NAMES, len(cols))
        if len(names) > 1 and names == sorted(names):
            names.reverse()
        mode = reorder or rng.choice(['asis', 'perm', 'sel'])
        if mode == 'any':
            mode = rng.choice(['asis', 'perm', 'sel', 'dup'])
        tab_cols = [[nm, kind, list(cells)] for nm, (kind, cells) in zip(names, cols)]
        if mode == 'dup' and n >= 2:
            # rows obtained by indexing with repeated positions (dm[[0, 0, 1]]), then given their own values
            nbase = rng.randint(1, n - 1)
            idx = [rng.randrange(nbase) for _ in range(n)]
            base = [[nm, k, enc_cells([{'KMixed': 'base', 'KFloat': 0.5, 'KInt': 0}[k]] * nbase)] for nm, k, _ in tab_cols]
            return {'n': nbase, 'cols': base, 'rowop': idx,
                    'post': [[nm, enc_cells(cs)] for nm, _k, cs in tab_cols]}, names
        if mode == 'dup':
            mode = 'asis'
        if mode == 'asis' or n == 0:
            rowop = None
            nbase = n
        elif mode == 'perm':
            perm = list(range(n))
            rng.shuffle(perm)
            # base table holds the cells so that dm[perm] reads as `cells`
            for c in tab_cols:
                base = [None] * n
                for pos, src in enumerate(perm):
                    base[src] = c[2][pos]
                c[2] = base
            rowop, nbase = perm, n
        else:
            extra = rng.randint(1, 2)
            nbase = n + extra
            keep = sorted(rng.sample(range(nbase), n))
            if rng.random() < 0.5:
                rng.shuffle(keep)
            for c in tab_cols:
                filler = {'KMixed': 'filler', 'KFloat': -77.5, 'KInt': -77}[c[1]]
                base = [filler] * nbase
                for pos, src in enumerate(keep):
                    base[src] = c[2][pos]
                c[2] = base
            rowop = keep
        return {'n': nbase, 'cols': [[nm, k, enc_cells(cs)] for nm, k, cs in tab_cols], 'rowop': rowop}, names

    def _hist_table(self, rng, n, cols, nmax=None, extra=None):
        """The columns `cols` ([(kind, cells)], n rows) as the START of a history (see apply_hist): the rows are
        reordered (sort by one of the columns, shuffle, an index list in which only some rows moved, a merge of two
        selections), then the table is grown, or shrunk and grown (new cells written by position, some left at their
        defaults), concatenated with another table, rows are deleted, slices taken, a column is added late -- and only
        then handed to the operation.  Cells written later are drawn from the column's own cells, so that the final
        table is of the family the caller asked for (`extra`: further values per column to draw from).  Returns (tab, names) like _table; the final table has
        1..nmax rows."""
        if n < 1 or not cols:
            return self._table(rng, n, cols, 'asis')
        nmax = nmax or max(n, 3) + 1
        names = rng.sample(NAMES, len(cols))
        if len(names) > 1 and names == sorted(names):
            names.reverse()
        kinds = [k for k, _c in cols]
        pools = [list(c) + list((extra or {}).get(j, [])) for j, (_k, c) in enumerate(cols)]
        late = rng.randrange(len(cols)) if len(cols) > 1 and rng.random() < 0.15 else None
        present = [j for j in range(len(cols)) if j != late]
        base = {'n': n, 'cols': [[names[j], kinds[j], enc_cells(cols[j][1])] for j in present], 'rowop': None}
        state = {'L': n}

        def drawn(j, k):
            return enc_cells([rng.choice(pools[j]) for _ in range(k)])

        def mk(kind):
            L = state['L']
            if kind == 'grow':
                m = rng.randint(L + 1, min(max(L + 1, nmax), L + 3))
                state['L'] = m
                return ['length', m, [[names[j], drawn(j, m - L)] for j in present if rng.random() < 0.85]]
            if kind == 'addcol':
                present.append(late)
                return ['addcol', names[late], kinds[late], drawn(late, L)]
            if L == 0:
                return None
            if kind == 'sort':
                return ['sort', names[rng.choice(present)]]
            if kind == 'shuffle':
                return ['shuffle', rng.randrange(10 ** 6)]
            if kind == 'concat':
                m = rng.randint(1, 2)
                oc = list(present)
                if len(oc) > 1 and rng.random() < 0.15:
                    oc.remove(rng.choice(oc))           # a column the other table lacks: default cells
                if rng.random() < 0.3:
                    rng.shuffle(oc)
                state['L'] = L + m
                return ['concat', {'n': m, 'cols': [[names[j], kinds[j], drawn(j, m)] for j in oc], 'rowop': None}]
            if kind == 'shrink':
                lo = 0 if rng.random() < 0.15 else 1
                if lo > L - 1:
                    return None
                state['L'] = rng.randint(lo, L - 1)
                return ['length', state['L'], []]
            if L < 2:
                return None
            if kind == 'index':
                idx = list(range(L))
                c = rng.random()
                if c < 0.35:                            # two rows change places, the others stay
                    a, b = rng.sample(range(L), 2)
                    idx[a], idx[b] = idx[b], idx[a]
                elif c < 0.6:                           # one row moves to the front / the end
                    x = idx.pop(rng.randrange(L))
                    idx.insert(rng.choice([0, len(idx)]), x)
                elif c < 0.8:
                    rng.shuffle(idx)
                else:                                   # a selection in any order
                    idx = rng.sample(range(L), rng.randint(1, L))
                state['L'] = len(idx)
                return ['index', idx]
            if kind == 'slice':
                a = rng.randint(0, L - 1)
                b = rng.randint(a + 1, L)
                state['L'] = b - a
                return ['slice', a, b]
            if kind == 'delrow':
                state['L'] = L - 1
                return ['delrow', rng.randrange(L)]
            if kind == 'merge':
                how = rng.choice(['or', 'or', 'and', 'xor'])
                a = rng.sample(range(L), rng.randint(1, L))
                b = rng.sample(range(L), rng.randint(1, L))
                res = set(a) | set(b) if how == 'or' else set(a) & set(b) if how == 'and' else set(a) ^ set(b)
                if not res:
                    return None
                state['L'] = len(res)
                return ['merge', how, a, b]
            raise AssertionError(kind)
        every = ['sort', 'shuffle', 'index', 'slice', 'grow', 'shrink', 'delrow', 'concat', 'merge']
        if rng.random() < 0.65:
            plan = [rng.choice(['sort', 'shuffle', 'index', 'index', 'merge'])]
            if plan[0] == 'merge':
                plan.append(rng.choice(['sort', 'shuffle', 'index']))
            if rng.random() < 0.35:
                plan.append('shrink')
            plan.append('grow')
            if rng.random() < 0.4:
                plan.append(rng.choice(every))
            if rng.random() < 0.25:
                plan.insert(0, rng.choice(['concat', 'grow', 'delrow', 'slice']))
        else:
            plan = [rng.choice(every) for _ in range(rng.randint(2, 5))]
        if late is not None:
            plan.insert(rng.randint(0, len(plan)), 'addcol')
        hist = []
        for kind in plan:
            if state['L'] >= nmax + 2 and kind in ('grow', 'concat'):
                kind = 'slice'
            st = mk(kind)
            if st is not None:
                hist.append(st)
        while state['L'] > nmax:
            hist.append(mk(rng.choice(['slice', 'delrow', 'shrink', 'index'])) or mk('delrow'))
        if state['L'] == 0:
            hist.append(mk('grow'))
        tab = dict(base, hist=hist)
        assert hist_len(tab) == state['L'] and 1 <= state['L'] <= nmax, tab
        return tab, names

    def _late_columns(self, rng, tab, names, op=None, cols=None, kinds=None):
        """Appends to the history of `tab` (in place): the table is READ -- dm.columns, dm.column_names, str(dm), row
        iteration, or an earlier call of one of the five operations on the same table object --, then one to three
        columns are added WITHOUT any cell assignment: by type, by a (type, kwargs) pair, as a second name of an
        existing column; sometimes the table is read once more.  Nothing is written afterwards, so the operation
        under test meets a table whose column set changed since it was last looked at.  -> the new names"""
        have = [c[0] for c in tab['cols']] + [st[1] for st in tab.get('hist') or [] if st[0] == 'addcol']
        if not have:
            return []
        fresh = [x for x in NAMES + ['late', 'A0', 'y2', 'bb'] if x not in have and x not in names]
        rng.shuffle(fresh)

        def read():
            c = rng.random()
            if c < 0.45:
                return ['read', rng.choice(['columns', 'column_names', 'str', 'rows'])]
            if c < 0.75 and op in ('weight', 'z', 'replace', 'keep'):
                # the operation under test itself, called before on the same table
                col = cols.get(op) if cols else None
                return ['read', op, col or rng.choice(have)] if op != 'keep' else ['read', rng.choice(['keep', 'getitem']), rng.choice(have)]
            if c < 0.8 and op == 'ff':
                return ['read', 'ff']
            return ['read', rng.choice(['weight', 'z', 'replace', 'keep', 'getitem']), rng.choice(have)]
        tail = [read()]
        if rng.random() < 0.3:
            tail.append(read())
        added = []
        for _ in range(rng.choice([1, 1, 2, 3])):
            new = fresh.pop()
            c = rng.random()
            if c < 0.4:
                tail.append(['addtype', new, rng.choice(kinds or KINDS)])
            elif c < 0.65:
                tail.append(['addtuple', new, rng.choice(kinds or KINDS)])
            else:
                tail.append(['alias', new, rng.choice(have + added)])
            added.append(new)
        if rng.random() < 0.3:
            tail.append(['read', rng.choice(['columns', 'column_names', 'str', 'rows', 'len'])])
        tab['hist'] = list(tab.get('hist') or []) + tail
        assert hist_len(tab) is not None, tab
        return added

    def _payload(self, rng, n, k):
        pool = {'KMixed': ['x', 'y', '', 1, 2.5, None, 'é', NAN], 'KFloat': [0.0, 1.5, -2.25, NAN, INF], 'KInt': [0, 1, -3, 7]}[k]
        return [rng.choice(pool) for _ in range(n)]

    def gen_weight(self, rng, tier):
        cases = []

        def one(ws, wkind, tags=(), reorder=None, hist=False, late=False):
            n = len(ws)
            cols = [(wkind, ws)]
            for k in rng.sample(KINDS, rng.randint(1, 3)):
                cols.append((k, self._payload(rng, n, k)))
            rng.shuffle(cols)
            widx = [i for i, c in enumerate(cols) if c[1] is ws][0]
            tab, names = self._hist_table(rng, n, cols, 5) if hist else self._table(rng, n, cols, reorder or 'any')
            if late:
                self._late_columns(rng, tab, names, 'weight', {'weight': names[widx]})
            cases.append(self.rerun({'op': 'weight', 'tab': tab, 'wname': names[widx], 'tags': list(tags)}))
        maxn = 3
        for n in range(1, maxn + 1):
            for ws in itertools.product(range(5), repeat=n):
                one(list(ws), rng.choice(['KMixed', 'KInt']))
        for _ in range(40 if tier == 'quick' else 600):
            n = rng.randint(4, 5 if tier == 'quick' else 7)
            one([rng.randint(0, 4) for _ in range(n)], rng.choice(['KMixed', 'KInt']))
        bad = [-1, -4, 2.5, 0.5, 'x', '', None, NAN, INF, -INF]
        for _ in range(60 if tier == 'quick' else 400):
            n = rng.randint(1, 4)
            ws = [rng.randint(0, 4) for _ in range(n)]
            for _j in range(rng.randint(1, n)):
                ws[rng.randrange(n)] = rng.choice(bad)
            one(ws, 'KMixed', ['invalid'])
        for _ in range(10):
            n = rng.randint(1, 3)
            one([float(rng.randint(0, 3)) for _ in range(n)], 'KFloat', ['invalid'])
            one([rng.choice([-1, -2, 0, 1]) for _ in range(n - 1)] + [-1], 'KInt', ['invalid'])
            one([rng.choice(['a', None, '']) for _ in range(n)], 'KMixed', ['invalid'])
        one([], 'KMixed', ['empty'], 'asis')
        one([], 'KInt', ['empty'], 'asis')
        # the weighted table reached through a history (reordered, then grown / shrunk and grown, concatenated, merged,
        # rows deleted, sliced): row i of the table AS IT READS NOW appears w_i times
        for _ in range(60 if tier == 'quick' else 700):
            one([rng.randint(0, 4) for _i in range(rng.randint(1, 4))], rng.choice(['KMixed', 'KInt']), ['history'], hist=True)
        for _ in range(15 if tier == 'quick' else 150):
            ws = [rng.randint(0, 4) for _i in range(rng.randint(2, 4))]
            ws[rng.randrange(len(ws))] = rng.choice(bad)
            one(ws, 'KMixed', ['history', 'invalid'], hist=True)
        # the table was looked at (dm.columns, printing, row iteration, an earlier weight / z / replace / keep_only call
        # on it), then columns were added by type / by (type, kwargs) / as a second name and never assigned to: the
        # result must hold them too (default cells / the cells of the aliased column, types preserved)
        for _ in range(70 if tier == 'quick' else 700):
            ws = [rng.randint(0, 4) for _i in range(rng.randint(1, 4))]
            wk = rng.choice(['KMixed', 'KInt'])
            if rng.random() < 0.12:
                ws[rng.randrange(len(ws))] = rng.choice(bad)
                wk = 'KMixed'
            one(ws, wk, ['late-columns'], hist=rng.random() < 0.5, late=True)
        # tables that also hold series columns (judged on the Python side): every weight vector in 0..3 for 1-2 rows,
        # sampled longer ones, invalid weights, several series columns of different depth, reordered rows
        def with_series(ws, wkind, late=False):
            n = len(ws)
            series = [[nm, rng.randint(1, 4)] for nm in rng.sample(['s', 'aa', 'zs'], rng.randint(1, 2))]
            payload = rng.random() < 0.5
            order = ['w'] + [nm for nm, _d in series] + (['p'] if payload else [])
            rng.shuffle(order)
            rowop = None
            if n > 1 and rng.random() < 0.4:
                rowop = list(range(n))
                rng.shuffle(rowop)
            inp = {'op': 'weight_series', 'weights': enc_cells(ws), 'wkind': wkind, 'series': series,
                   'payload': payload, 'order': order, 'rowop': rowop}
            if late:
                have = list(order)
                fresh = [x for x in ['t2', 'late', 'A0', 'm', 'zz'] if x not in have]
                rng.shuffle(fresh)
                tail = [['read', rng.choice(['columns', 'column_names', 'str', 'rows'])] if rng.random() < 0.6
                        else ['read', 'weight', 'w']]
                for _i in range(rng.choice([1, 1, 2])):
                    new = fresh.pop()
                    c = rng.random()
                    tail.append(['addseries', new, rng.randint(1, 4)] if c < 0.45 else ['addtype', new, rng.choice(KINDS)] if c < 0.65
                                else ['addtuple', new, rng.choice(KINDS)] if c < 0.75 else ['alias', new, rng.choice(have)])
                    have.append(new)
                inp['late'] = tail
            cases.append(self.rerun(inp))
        for n in (1, 2):
            for ws in itertools.product(range(4), repeat=n):
                with_series(list(ws), rng.choice(['KMixed', 'KInt']))
        for _ in range(25 if tier == 'quick' else 300):
            with_series([rng.randint(0, 4) for _i in range(rng.randint(3, 6))], rng.choice(['KMixed', 'KInt']))
        for _ in range(12 if tier == 'quick' else 100):
            n = rng.randint(1, 4)
            ws = [rng.randint(0, 3) for _i in range(n)]
            ws[rng.randrange(n)] = rng.choice(bad)
            with_series(ws, 'KMixed')
        with_series([rng.choice([-1, -2]) for _i in range(2)], 'KInt')
        for _ in range(30 if tier == 'quick' else 300):
            # read, then SeriesColumn(depth=..) / typed columns / second names added and never assigned to
            ws = [rng.randint(0, 3) for _i in range(rng.randint(1, 4))]
            wk = rng.choice(['KMixed', 'KInt'])
            if rng.random() < 0.1:
                ws[rng.randrange(len(ws))] = rng.choice(bad)
                wk = 'KMixed'
            with_series(ws, wk, late=True)
        return cases

    def gen_fullfact(self, rng, tier):
        cases = []
        seen = set()

        def one(levels):
            if tuple(levels) in seen:
                return
            seen.add(tuple(levels))
            cases.append(self.rerun({'op': 'fullfact', 'levels': list(levels)}))
        for nf in range(1, 4):
            for levels in itertools.product(range(0, 4), repeat=nf):
                one(levels)
        if tier == 'quick':
            for _ in range(30):
                one([rng.randint(1, 4) for _ in range(rng.randint(1, 4))])
            one([4, 4, 4, 4])
        else:
            for nf in range(1, 5):
                for levels in itertools.product(range(0, 5), repeat=nf):
                    one(levels)
            for _ in range(40):
                one([rng.randint(1, 6) for _ in range(rng.randint(1, 5))])
        return cases

    def gen_ff(self, rng, tier):
        cases = []
        values = ['a', 'b', 1, 2, 2.5, None, 'é', 0, -1, 'a', 1]      # duplicates on purpose

        def design(ncol, nrow, mask, ig, default_ignore, reorder=None, kinds=None, hist=False, late=False):
            cols = []
            for c in range(ncol):
                cells = []
                for r in range(nrow):
                    if mask[c * nrow + r]:
                        cells.append(ig)
                    else:
                        v = rng.choice(values)
                        while _pyeq(v, ig):
                            v = rng.choice(values)
                        cells.append(v)
                kd = (kinds or ['KMixed'] * ncol)[c]
                if kd != 'KMixed':
                    cells = [rng.randint(0, 3) for _ in range(nrow)]
                cols.append((kd, cells))
            more = {c: [v for v in rng.sample(values, 3) if not _pyeq(v, ig)] for c in range(ncol) if cols[c][0] == 'KMixed'}
            tab, _names = self._hist_table(rng, nrow, cols, 4, more) if hist else self._table(rng, nrow, cols, reorder)
            if late and nrow:
                self._late_columns(rng, tab, _names, 'ff', kinds=['KMixed'] if rng.random() < 0.85 else None)
            cases.append(self.rerun({'op': 'ff', 'tab': tab, 'ignore': pyobs.enc(ig), 'default_ignore': default_ignore}))
        igs = ['', 0, 'q', None, NAN, 2.5]
        for ncol in range(1, 4):
            for nrow in range(1, 4):
                for mask in itertools.product([0, 1], repeat=ncol * nrow):
                    if rng.random() < 0.75:
                        design(ncol, nrow, mask, '', True)
                    else:
                        design(ncol, nrow, mask, rng.choice(igs), False)
        for _ in range(60 if tier == 'quick' else 1500):
            ncol, nrow = rng.choice([(4, rng.randint(1, 4)), (rng.randint(1, 4), 4), (4, 4), (4, 3)])
            p = rng.choice([0.1, 0.3, 0.5])
            mask = [1 if rng.random() < p else 0 for _ in range(ncol * nrow)]
            ig = '' if rng.random() < 0.6 else rng.choice(igs)
            design(ncol, nrow, mask, ig, ig == '' and rng.random() < 0.8)
        # the design table reached through a history: levels added after the rows were sorted / shuffled / partly
        # moved / merged, rows deleted, tables concatenated; every combination of the cells AS THEY READ NOW, once
        for _ in range(90 if tier == 'quick' else 1200):
            ncol, nrow = rng.choice([1, 2, 2, 3, 3, 4]), rng.choice([1, 2, 2, 3, 3, 3])
            p = rng.choice([0.0, 0.2, 0.4])
            mask = [1 if rng.random() < p else 0 for _ in range(ncol * nrow)]
            ig = '' if rng.random() < 0.7 else rng.choice(igs)
            design(ncol, nrow, mask, ig, ig == '' and rng.random() < 0.8, hist=True)
        # the design table was looked at, then factors were added by type / as a second name of another factor and never
        # assigned to (a MixedColumn created by type holds '' in every row)
        for _ in range(30 if tier == 'quick' else 300):
            ncol, nrow = rng.choice([1, 2, 2, 3]), rng.choice([1, 2, 2, 3])
            mask = [1 if rng.random() < 0.2 else 0 for _ in range(ncol * nrow)]
            ig = '' if rng.random() < 0.7 else rng.choice(igs)
            design(ncol, nrow, mask, ig, ig == '' and rng.random() < 0.8, hist=rng.random() < 0.4, late=True)
        # outside the quantifier (model only): non-Mixed columns, no columns
        for _ in range(6):
            design(2, 2, [0, 0, 0, 0], '', True, kinds=rng.choice([['KMixed', 'KInt'], ['KFloat', 'KMixed'], ['KInt', 'KInt']]))
        cases.append(self.rerun({'op': 'ff', 'tab': {'n': 2, 'cols': [], 'rowop': None}, 'ignore': pyobs.enc(''), 'default_ignore': True}))
        return [c for c in cases if c is not None]

    def gen_replace(self, rng, tier):
        cases = []
        pools = {
            'KMixed': ['a', 'b', '', 0, 1, 2, -3, 2.5, None, 'é', NAN, INF],
            'KFloat': [0.0, 1.0, 1.5, -2.25, 3.0, NAN, INF, -INF, -0.0],
            'KInt': [0, 1, 2, -3, 7, 10],
        }
        keyp = {
            'KMixed': ['a', 'b', '', 0, 1, 2, 2.5, None, 'é', 'zz', 1.0, 0.0, NAN, True],
            'KFloat': [0, 1, 1.5, -2.25, 3.0, NAN, INF, 0.0, 8, True],
            'KInt': [0, 1, 2, -3, 7, 1.0, 0.5, 10, NAN],
        }
        valp = {
            'KMixed': ['n1', 'n2', 100, 101, 7.5, None, '', '12', '1.5', 3.0, True, 'a', 1],
            'KFloat': [100, 101.5, -7.25, NAN, INF, 3, 0.0, 1.5],
            'KInt': [100, 101, 55, 2.7, -8.9, 3.0, 1, 2],
        }

        def one(kd, mapping, tags, hist=False, late=False):
            n = rng.randint(1, 6 if not hist else 4)
            cells = [rng.choice(pools[kd]) for _ in range(n)]
            cols = [(kd, cells)]
            for k in rng.sample(KINDS, rng.randint(0, 2)):
                cols.append((k, self._payload(rng, n, k)))
            rng.shuffle(cols)
            idx = [i for i, c in enumerate(cols) if c[1] is cells][0]
            tab, names = self._hist_table(rng, n, cols, 6) if hist else self._table(rng, n, cols, 'any')
            if late:
                self._late_columns(rng, tab, names, 'replace', {'replace': names[idx]})
            cases.append(self.rerun({'op': 'replace', 'tab': tab, 'col': names[idx],
                                     'mapping': [[pyobs.enc(k), pyobs.enc(v)] for k, v in mapping], 'tags': tags}))
        reps = 110 if tier == 'quick' else 1500
        for kd in KINDS:
            for _ in range(reps):
                nk = rng.randint(0, 4)
                keys = rng.sample(keyp[kd], min(nk, len(keyp[kd])))
                one(kd, [(k, rng.choice(valp[kd])) for k in keys], ['mapping:random'])
            for _ in range(reps // 4):
                # the column of a table that has a history (reordered, grown, merged, ...)
                keys = rng.sample(keyp[kd], rng.randint(1, 4))
                one(kd, [(k, rng.choice(valp[kd])) for k in keys], ['mapping:random', 'history'], hist=True)
            for _ in range(reps // 8):
                # the table was looked at / used before, columns were added by type / as a second name since
                keys = rng.sample(keyp[kd], rng.randint(1, 3))
                one(kd, [(k, rng.choice(valp[kd])) for k in keys], ['mapping:random', 'late-columns'],
                    hist=rng.random() < 0.4, late=True)
            for _ in range(reps // 4):
                # chains: a value that is itself a later / earlier key (outside the quantifier: model only)
                ks = rng.sample([k for k in pools[kd] if k == k], min(3, len(pools[kd]) - 1))
                one(kd, [(ks[i], ks[(i + 1) % len(ks)]) for i in range(len(ks))], ['mapping:chain'])
        # keys that are no numbers on numeric columns: nothing equals them, an unchanged copy is expected (also when
        # they sit between keys that do match)
        odd_keys = ['a', None, '', '1', '1.5', 'nan', 'é']
        for kd in ('KFloat', 'KInt'):
            for _ in range(30 if tier == 'quick' else 300):
                ks = rng.sample(odd_keys, rng.randint(1, 2)) + rng.sample([k for k in keyp[kd] if k == k], rng.randint(0, 2))
                rng.shuffle(ks)
                one(kd, [(k, rng.choice([100, 101, 55] if kd == 'KInt' else [100, 101.5, -7.25])) for k in ks],
                    ['mapping:non-number-key'])
        bad_vals = {'KFloat': ['a', None, '7.5', ''], 'KInt': ['a', None, '7', '1.5', NAN, INF]}
        for kd in ('KFloat', 'KInt'):
            for _ in range(12 if tier == 'quick' else 100):
                one(kd, [(rng.choice([0, 1, 99, 'a']), rng.choice(bad_vals[kd]))], ['mapping:malformed'])
        for _ in range(10 if tier == 'quick' else 100):
            one('KMixed', [(rng.choice([0, 'a', 99]), Foreign())], ['mapping:malformed'])
        return [c for c in cases if c is not None]

    def gen_keep(self, rng, tier):
        cases = []
        vias = ['keep_only', 'keep_only_list', 'getitem_tuple', 'getitem_list']

        def one(ncol, args, via, alias=None, hist=False, late=False):
            n = rng.randint(0 if rng.random() < 0.05 and not hist else 1, 4)
            cols = [(k, self._payload(rng, n, k)) for k in [rng.choice(KINDS) for _ in range(ncol)]]
            tab, names = self._hist_table(rng, n, cols, 5) if hist else self._table(rng, n, cols, 'any')
            added = self._late_columns(rng, tab, names, 'keep') if late and n else []
            if added:
                # the columns added late are named too (by name or object), now and then
                args = list(args) + [('latename' if rng.random() < 0.5 else 'lateobj', a) for a in added if rng.random() < 0.4]
            real = []
            for a in args:
                if a[0] == 'name':
                    real.append({'name': names[a[1]]})
                elif a[0] == 'obj':
                    real.append({'obj': names[a[1]]})
                elif a[0] in ('latename', 'lateobj'):
                    real.append({'name' if a[0] == 'latename' else 'obj': a[1]})
                elif a[0] == 'unknown':
                    real.append({'name': 'nope%d' % a[1]})
                elif a[0] == 'foreign':
                    real.append({'foreign': names[a[1]] if a[1] < len(names) else 'fq'})
                else:
                    real.append({'other': 7})
            inp = {'op': 'keep', 'tab': tab, 'args': real, 'via': via}
            if alias:
                inp['alias'] = ['alias_' + names[alias], names[alias]]
            cases.append(self.rerun(inp))
        for ncol in range(1, 5):
            for r in range(0, ncol + 1):
                for subset in itertools.combinations(range(ncol), r):
                    for how in ('name', 'obj', 'mixed'):
                        sub = list(subset)
                        rng.shuffle(sub)
                        args = [(how if how != 'mixed' else rng.choice(['name', 'obj']), i) for i in sub]
                        one(ncol, args, rng.choice(vias))
        for _ in range(60 if tier == 'quick' else 800):
            ncol = rng.randint(1, 4)
            args = []
            for _j in range(rng.randint(0, 4)):
                c = rng.random()
                i = rng.randrange(ncol)
                args.append(('name', i) if c < 0.4 else ('obj', i) if c < 0.75 else ('unknown', i) if c < 0.87
                            else ('foreign', rng.randrange(ncol + 1)) if c < 0.95 else ('other', 0))
            one(ncol, args, rng.choice(vias), alias=(rng.randrange(ncol) if rng.random() < 0.12 else None))
        # all rows (as they are now) of a table that has a history, with exactly the named columns
        for _ in range(45 if tier == 'quick' else 500):
            ncol = rng.randint(1, 4)
            sub = rng.sample(range(ncol), rng.randint(1, ncol))
            one(ncol, [(rng.choice(['name', 'obj']), i) for i in sub], rng.choice(vias), hist=True)
        # the table was looked at / used before, columns were added by type / (type, kwargs) / as a second name since
        for _ in range(45 if tier == 'quick' else 500):
            ncol = rng.randint(1, 3)
            sub = rng.sample(range(ncol), rng.randint(0, ncol))
            one(ncol, [(rng.choice(['name', 'obj']), i) for i in sub], rng.choice(vias), hist=rng.random() < 0.4, late=True)
        # selection by object after the column's name was looked up and the column was renamed / re-added / swapped:
        # the object must be found under its CURRENT name
        for _ in range(90 if tier == 'quick' else 900):
            ncol = rng.randint(1, 4)
            n = rng.randint(1, 4)
            cols = [(k, self._payload(rng, n, k)) for k in [rng.choice(KINDS) for _ in range(ncol)]]
            tab, names = self._table(rng, n, cols, 'any')
            cur = list(names)
            prep = []
            fresh = [x for x in NAMES + ['r1', 'Q', 'new_name'] if x not in names]
            rng.shuffle(fresh)
            for _j in range(rng.randint(1, 3)):
                i = rng.randrange(ncol)
                look = rng.choice(['lookup', 'keep_by_obj', 'getitem_by_obj', None] if _j else ['lookup', 'keep_by_obj', 'getitem_by_obj'])
                if look:
                    for k in ([i] if rng.random() < 0.6 else range(ncol)):
                        prep.append([look, cur[k]])
                c = rng.random()
                if c < 0.55 or ncol == 1:
                    new = fresh.pop()
                    prep.append(['rename', cur[i], new])
                    cur[i] = new
                elif c < 0.75:
                    new = fresh.pop()
                    prep.append(['readd', cur[i], new])
                    cur[i] = new
                else:
                    j = rng.choice([x for x in range(ncol) if x != i])
                    prep.append(['swap', cur[i], cur[j]])
                    cur[i], cur[j] = cur[j], cur[i]
            sub = rng.sample(range(ncol), rng.randint(1, ncol))
            args = [({'obj': cur[k]} if rng.random() < 0.8 else {'name': cur[k]}) for k in sub]
            cases.append(self.rerun({'op': 'keep', 'tab': tab, 'prep': prep, 'args': args, 'via': rng.choice(vias)}))
        return [c for c in cases if c is not None]

    def gen_z(self, rng, tier):
        cases = []

        def one(kd, cells, exact_s=None, tags=(), hist=False, late=False):
            n = len(cells)
            cols = [(kd, cells)]
            for k in rng.sample(KINDS, rng.randint(0, 2)):
                cols.append((k, self._payload(rng, n, k)))
            rng.shuffle(cols)
            idx = [i for i, c in enumerate(cols) if c[1] is cells][0]
            tab, names = self._hist_table(rng, n, cols, max(n, 3) + 2) if hist else self._table(rng, n, cols, 'any')
            if late:
                self._late_columns(rng, tab, names, 'z', {'z': names[idx]})
            inp = {'op': 'z', 'tab': tab, 'col': names[idx]}
            if exact_s is not None:
                inp['exact_s'] = [exact_s.numerator, exact_s.denominator]
            if tags:
                inp['tags'] = list(tags)
            cases.append(self.rerun(inp))

        def junked(kd, nums):
            cells = list(nums)
            junk = {'KMixed': ['x', None, NAN, INF, '', 'é'] + ([-INF] if INCLUDE_PENDING_FINDINGS else []),
                    'KFloat': [NAN], 'KInt': []}[kd]
            for _j in range(rng.randint(0, 3) if junk and rng.random() < 0.7 else 0):
                cells.insert(rng.randrange(len(cells) + 1), rng.choice(junk))
            return cells

        def as_cells(kd, xs):
            """ints where the kind wants them; a MixedColumn gets a mixture of int and float objects"""
            if kd == 'KInt':
                return [int(x) for x in xs]
            if kd == 'KMixed':
                return [int(x) if float(x) == int(x) and rng.random() < 0.6 else float(x) for x in xs]
            return [float(x) for x in xs]

        # large offset, small spread: the mean is huge relative to the standard deviation (max|x|/std up to ~1e13).
        # Everyday data of this shape: ids / counters 1e8+k, millisecond timestamps, prices with cents, values
        # around +-2^40 and +-2^52.  Judged with the conditioning-dependent tolerance of z_tolerance().
        bases_int = [100000000, 1600000000000, 1700000000123, 2 ** 40, -2 ** 40, 2 ** 40 + 12345, 987654321012,
                     -314159265358, 2 ** 31 - 2, -(2 ** 33) - 7, 10 ** 15 + 3]
        bases_frac = [123456789.25, 1700000000123.5, -98765432.125, 2.0 ** 40 + 0.375, -(2.0 ** 40) - 0.5, 1e8 + 0.1]
        delta_sets = [[0, 1, 2, 3], [0, 250, 500, 1000, 1250], [0, 1], [-1, 0, 0, 1], [0, 0, 0, 7], [3, 1, 4, 1, 5, 9, 2, 6]]
        for _ in range(130 if tier == 'quick' else 2500):
            kd = rng.choice(['KMixed', 'KMixed', 'KFloat', 'KInt'])
            while True:
                if kd != 'KInt' and rng.random() < 0.4:
                    b = rng.choice(bases_frac)
                    n = rng.randint(2, 8)
                    ds = rng.choice([[rng.randint(-40, 40) / 4.0 for _i in range(n)],
                                     [rng.uniform(-3, 3) for _i in range(n)],
                                     [float(d) for d in rng.choice(delta_sets)]])
                else:
                    b = rng.choice(bases_int)
                    n = rng.randint(2, 8)
                    ds = rng.choice([list(rng.choice(delta_sets)), [rng.randint(-50, 50) for _i in range(n)],
                                     [rng.randint(0, 3) for _i in range(n)]])
                    if kd != 'KInt' and rng.random() < 0.3:
                        ds = [d + rng.choice([0, 0.5, 0.25, rng.uniform(0, 1)]) for d in ds]
                xs = [b + d for d in ds]
                if len(set(float(x) for x in xs)) >= 2:
                    break
            rng.shuffle(xs)
            one(kd, junked(kd, as_cells(kd, xs)), tags=['z:large-offset'])
        # around +-2^52 (doubles are 1 apart): wide spreads are judged numerically, unit spreads are beyond what a
        # double mean can resolve (tolerance >= 0.5: judged for shape / exceptions / monotonicity only)
        for _ in range(24 if tier == 'quick' else 300):
            kd = rng.choice(['KMixed', 'KMixed', 'KFloat', 'KInt'])
            b = rng.choice([2 ** 52, -2 ** 52, 2 ** 52 - 4096, -(2 ** 52) + 99, 2 ** 51 + 1])
            step = rng.choice([1, 1, 2 ** 12, 2 ** 20, 2 ** 30, 1000003])
            while True:
                xs = [b - abs(rng.randint(0, 40)) * step * (1 if b > 0 else -1) for _i in range(rng.randint(2, 7))]
                if len(set(xs)) >= 2:
                    break
            one(kd, junked(kd, as_cells(kd, xs)), tags=['z:near-2^52'])
        # mixed signs (large magnitudes, mean near 0) and one outlier next to a tight cluster
        for _ in range(40 if tier == 'quick' else 500):
            kd = rng.choice(['KMixed', 'KMixed', 'KFloat', 'KInt'])
            b = rng.choice(bases_int[:8])
            n = rng.randint(2, 7)
            if rng.random() < 0.5:
                xs = [rng.choice([b, -b]) + rng.randint(-5, 5) for _i in range(n)]
                tg = 'z:mixed-signs'
            else:
                xs = [b + rng.randint(0, 3) for _i in range(n)] + [rng.choice([0, 5, -b, b * 1000, b + 10 ** 6, -7.5 if kd != 'KInt' else -7])]
                tg = 'z:one-outlier'
            if len(set(float(x) for x in xs)) < 2:
                continue
            rng.shuffle(xs)
            one(kd, junked(kd, as_cells(kd, xs)), tags=[tg])
        for _ in range(150 if tier == 'quick' else 2500):
            kd = rng.choice(['KFloat', 'KMixed', 'KInt'])
            n = rng.randint(2, 8)
            while True:
                nums = [rng.choice([rng.randint(-20, 20), rng.randint(-2000, 2000) / 8.0, rng.uniform(-1e3, 1e3)]
                                   if kd != 'KInt' else [rng.randint(-20, 20)])
                        for _ in range(n)]
                if len(set(float(x) for x in nums)) >= 2:
                    break
            cells = list(nums)
            junk = {'KMixed': ['x', None, NAN, INF, '', 'é'], 'KFloat': [NAN], 'KInt': []}[kd]
            for _j in range(rng.randint(0, 3) if junk else 0):
                cells.insert(rng.randrange(len(cells) + 1), rng.choice(junk))
            one(kd, cells)
            if _ % 4 == 0:          # the column of a table that has a history (the cells as they are then)
                one(kd, cells, tags=['z:history'], hist=True)
            if _ % 6 == 1:          # the table was looked at / used before, columns were added by type / alias since
                one(kd, cells, tags=['z:late-columns'], hist=rng.random() < 0.4, late=True)
        # the same measurements in other UNITS: values (and spreads) of very small and very large magnitude -- charges in
        # coulomb ~1e-19, 1e-30, 1e-100, 1e100, 1e140 -- and an offset of 1e8 with a spread of 1e-3.  z is invariant
        # under a change of unit and so is the a-priori bound (it depends on max|x|/std only) as long as no square
        # under- or overflows: magnitudes 1e-145 .. 1e145 are judged like any other input.
        # Pending (unchanged tree, see INCLUDE_PENDING_FINDINGS): beyond about 1e-160 / 1e155 the squared deviations
        # under- / overflow, std is 0 or inf and z returns +-inf / 0 / raises ZeroDivisionError (MixedColumn).
        exps = [-18, -18, -19, -17, -16, -15, -21, -24, -30, -60, -100, -140, -145, 15, 20, 60, 100, 140, 145]
        if INCLUDE_PENDING_FINDINGS:
            exps += [-300, -200, -165, 160, 200, 300]
        for _ in range(70 if tier == 'quick' else 900):
            kd = rng.choice(['KFloat', 'KFloat', 'KMixed'])
            n = rng.randint(2, 8)
            if rng.random() < 0.75:
                e = rng.choice(exps)
                while True:
                    base = [rng.choice([rng.randint(-20, 20), rng.randint(-200, 200) / 8.0, rng.randint(-99, 99) / 10.0,
                                        rng.choice([3, 1, 4, 1, 5, 9, 2, 6])]) for _i in range(n)]
                    if rng.random() < 0.3:
                        base = [abs(b) for b in base]
                    xs = [b * 10.0 ** e for b in base]
                    if len(set(xs)) >= 2:
                        break
                tg = 'z:magnitude-1e%d' % e
            else:
                b = rng.choice([1e8, -1e8, 123456789.0, 1e8 + 0.5, 3e8])
                while True:
                    xs = [b + rng.choice([rng.randint(-9, 9), rng.randint(0, 3), rng.randint(-40, 40) / 4.0]) * 1e-3 for _i in range(n)]
                    if len(set(xs)) >= 2:
                        break
                tg = 'z:offset-1e8-spread-1e-3'
            cells = [float(x) for x in xs]
            junk = {'KMixed': ['x', None, NAN, ''], 'KFloat': [NAN]}[kd]
            for _j in range(rng.randint(0, 2) if rng.random() < 0.5 else 0):
                cells.insert(rng.randrange(len(cells) + 1), rng.choice(junk))
            one(kd, cells, tags=['z:units', tg], hist=rng.random() < 0.15)
        # families with a rational standard deviation: a-d, a, a+d  and  a-d, a-d, a, a+d, a+d  (s = d)
        for _ in range(40 if tier == 'quick' else 400):
            kd = rng.choice(['KFloat', 'KMixed', 'KInt'])
            a = rng.choice([rng.randint(-9, 9), rng.randint(-40, 40) / 4.0]) if kd != 'KInt' else rng.randint(-9, 9)
            d = rng.choice([1, 2, 4, 0.5, 8, 0.25]) if kd != 'KInt' else rng.choice([1, 2, 4, 8])
            cells = rng.choice([[a - d, a, a + d], [a - d, a - d, a, a + d, a + d]])
            rng.shuffle(cells)
            if kd == 'KMixed' and rng.random() < 0.5:
                cells.insert(rng.randrange(len(cells) + 1), rng.choice(['x', None]))
            one(kd, cells, Fraction(d))
        # the same families around a large centre a: every intermediate of the two-pass computation (3a or 5a, the
        # mean a, the deviations 0 / +-d, d^2, the root d) is a double, so the scores must be exactly -1, 0, 1;
        # the squares of the cells themselves (needed by a single-pass formula) are not
        big_int = [100000000, 1600000000000, 1700000000123, 2 ** 40, -2 ** 40, 2 ** 40 - 3, 2 ** 50 - 5, -(2 ** 50) + 7,
                   987654321012, -314159265358]
        big_frac = [123456789.25, 1700000000123.5, -98765432.125, 2.0 ** 40 + 0.375]
        for _ in range(45 if tier == 'quick' else 500):
            kd = rng.choice(['KFloat', 'KMixed', 'KMixed', 'KInt'])
            if kd != 'KInt' and rng.random() < 0.4:
                a, d = rng.choice(big_frac), rng.choice([1, 2, 4, 0.5, 0.25, 8, 1024])
            else:
                a, d = rng.choice(big_int), rng.choice([1, 2, 4, 8, 64, 4096])
                if kd != 'KInt' and abs(a) < 2 ** 45 and rng.random() < 0.3:
                    d = rng.choice([0.5, 0.25])
            cells = rng.choice([[a - d, a, a + d], [a - d, a - d, a, a + d, a + d]])
            rng.shuffle(cells)
            cells = as_cells(kd, cells)
            if kd == 'KMixed' and rng.random() < 0.5:
                cells.insert(rng.randrange(len(cells) + 1), rng.choice(['x', None, NAN]))
            elif kd == 'KFloat' and rng.random() < 0.3:
                cells.insert(rng.randrange(len(cells) + 1), NAN)
            one(kd, cells, Fraction(d), tags=['z:large-offset'])
        return [c for c in cases if c is not None]

    def gen_pending(self, rng, tier):
        """cases on which the UNCHANGED tree departs from a strict reading of the property (see INCLUDE_PENDING_FINDINGS):
        the NaN-key-on-MixedColumn and -inf cases ride in gen_replace / gen_z and are switched by the same constant"""
        return []

    def generate(self, rng, tier):
        cases = []
        for g in (self.gen_weight, self.gen_fullfact, self.gen_ff, self.gen_replace, self.gen_replace_series, self.gen_keep,
                  self.gen_z, self.gen_pending):
            cases.extend(g(rng, tier))
        return cases

    # ------------------------------------------------------------ shrinking / reporting
    def shrink_candidates(self, inp):
        op = inp['op']
        if op == 'fullfact':
            lv = inp['levels']
            for i in range(len(lv)):
                if len(lv) > 1:
                    yield {'op': op, 'levels': lv[:i] + lv[i + 1:]}
                if lv[i] > 1:
                    yield {'op': op, 'levels': lv[:i] + [lv[i] - 1] + lv[i + 1:]}
            return
        if op == 'replace_series':
            return
        if op == 'weight_series':
            ws = inp['weights']
            if len(ws) > 1:
                for i in range(len(ws)):
                    yield dict(inp, weights=ws[:i] + ws[i + 1:], rowop=None)
            if inp.get('late'):
                lt = inp['late']
                for i in range(len(lt)):
                    if not any(st[0] == 'alias' and st[2] == lt[i][1] for st in lt[i + 1:] if lt[i][0] != 'read'):
                        yield dict(inp, late=lt[:i] + lt[i + 1:] or None)
            if len(inp['series']) > 1 and not any(st[0] == 'alias' for st in inp.get('late') or []):
                for i in range(len(inp['series'])):
                    sr = inp['series'][:i] + inp['series'][i + 1:]
                    yield dict(inp, series=sr, order=[x for x in inp['order'] if x in ('w', 'p') or x in dict(sr)])
            if inp.get('payload') and not any(st[0] == 'alias' for st in inp.get('late') or []):
                yield dict(inp, payload=False, order=[x for x in inp['order'] if x != 'p'])
            return
        tab = inp['tab']
        needed = {inp.get('wname'), inp.get('col')} | {list(a.values())[0] for a in inp.get('args', [])} \
            | set(inp.get('alias') or []) | {x for st in (inp.get('prep') or []) for x in st[1:]}
        if tab.get('hist'):
            # a shorter history (only well-formed ones: every step must fit the state it meets), fewer cells written
            # after a growth; the mapping / arguments below
            h = tab['hist']
            for i in range(len(h)):
                if h[i][0] == 'addcol' and h[i][1] in needed:
                    continue
                t2 = dict(tab, hist=h[:i] + h[i + 1:])
                n2 = hist_len(t2)
                if n2 is not None and n2 >= 1:
                    yield dict(inp, tab=t2)
            for i, st in enumerate(h):
                if st[0] == 'length' and len(st[2]) > 1:
                    for j in range(len(st[2])):
                        yield dict(inp, tab=dict(tab, hist=h[:i] + [[st[0], st[1], st[2][:j] + st[2][j + 1:]]] + h[i + 1:]))
        # drop a column that the operation does not name
        for i, c in enumerate(tab['cols'] if not tab.get('hist') else []):
            if c[0] not in needed and (op != 'ff') and len(tab['cols']) > 1:
                t2 = dict(tab, cols=tab['cols'][:i] + tab['cols'][i + 1:],
                          post=[pc for pc in (tab.get('post') or []) if pc[0] != c[0]] or None)
                yield dict(inp, tab=t2)
        if op == 'ff' and len(tab['cols']) > 1 and not tab.get('hist'):
            for i in range(len(tab['cols'])):
                yield dict(inp, tab=dict(tab, cols=tab['cols'][:i] + tab['cols'][i + 1:]))
        # materialise the row order, then drop rows
        if tab.get('hist'):
            pass
        elif tab.get('rowop') is not None and not tab.get('post'):
            ro = tab['rowop']
            t2 = {'n': len(ro), 'cols': [[c[0], c[1], [c[2][j] for j in ro]] for c in tab['cols']], 'rowop': None}
            yield dict(inp, tab=t2)
        elif tab.get('post'):
            ro = tab['rowop']
            for i in range(len(ro)):
                if len(ro) > 1:
                    yield dict(inp, tab=dict(tab, rowop=ro[:i] + ro[i + 1:],
                                             post=[[nm, cs[:i] + cs[i + 1:]] for nm, cs in tab['post']]))
        elif tab['n'] > 1 and tab.get('rowop') is None:
            for i in range(tab['n']):
                t2 = {'n': tab['n'] - 1, 'cols': [[c[0], c[1], c[2][:i] + c[2][i + 1:]] for c in tab['cols']], 'rowop': None}
                yield dict(inp, tab=t2)
        if op == 'replace' and len(inp['mapping']) > 1:
            for i in range(len(inp['mapping'])):
                yield dict(inp, mapping=inp['mapping'][:i] + inp['mapping'][i + 1:])
        if op == 'keep' and inp.get('prep'):
            for i in range(len(inp['prep'])):
                if inp['prep'][i][0] in ('lookup', 'keep_by_obj', 'getitem_by_obj'):
                    yield dict(inp, prep=inp['prep'][:i] + inp['prep'][i + 1:])
        if op == 'keep' and len(inp['args']) > 1:
            for i in range(len(inp['args'])):
                yield dict(inp, args=inp['args'][:i] + inp['args'][i + 1:])

    def key(self, case):
        i = case['input']
        if i['op'] == 'fullfact':
            return '_fullfact levels=%s' % (i['levels'],)
        if i['op'] == 'weight_series':
            return 'weight with SeriesColumn %s' % _compact(i)
        if i['op'] == 'replace_series':
            return 'replace on a SeriesColumn %s' % _compact(i)
        t = i['tab']
        extra = {k: v for k, v in i.items() if k not in ('op', 'tab', 'tags')}
        return '%s %s table=%s' % (i['op'], _compact(extra), _compact(t))


def _pyeq(a, b):
    if isinstance(b, float) and b != b:
        return isinstance(a, float) and a != a
    try:
        return bool(a == b) and not (isinstance(a, float) and a != a)
    except Exception:      # noqa: BLE001
        return False


def _compact(x):
    import json
    return json.dumps(x, separators=(',', ':'), sort_keys=True, default=str)


PROP = C15()
